#!/bin/sh
# Offline setup: nothing to install (stdlib only on /venv/bin/python). Byte-compiles the
# simulator and runs the reference node's golden-transcript self-test.
cd "$(dirname "$0")" || exit 2
/venv/bin/python -m compileall -q sim || exit 2
PYTHONHASHSEED=0 /venv/bin/python -c "import sys; sys.path.insert(0,'.'); from sim import nodetest; sys.exit(nodetest.main())"

"""Tagged JSON encoding for scenario values.

A scenario is a JSON document; Python values JSON cannot carry use tags:
  bytes -> {"$b": latin-1 text}     tuple -> {"$t": [...]}     set -> {"$set": [...]}
  frozenset -> {"$fs": [...]}       dict with non-str keys -> {"$d": [[k, v], ...]}
  one-shot iterator -> {"$iter": [...]}      dict.keys() view -> {"$keys": [...]}
  generator-of-pairs dict view etc. are not needed.
  sentinel object -> {"$s": name}   exception class -> {"$exc": name}
  float specials -> {"$f": "nan"}   Decimal -> {"$dec": "1.5"}
  sample picklable objects -> {"$obj": [classname, state]}
  serde -> {"$serde": {...}}  (decoded by stacks.make_serde)
Everything is deterministic: sets are emitted sorted by their encoded JSON text.
"""
import json
import decimal


class Sentinel:
    __slots__ = ("name",)
    _reg = {}

    def __new__(cls, name):
        s = cls._reg.get(name)
        if s is None:
            s = object.__new__(cls)
            s.name = name
            cls._reg[name] = s
        return s

    def __repr__(self):
        return "<S:%s>" % self.name

    def __reduce__(self):
        return (Sentinel, (self.name,))


class Point:
    """A small picklable user class used as a value."""

    def __init__(self, x=0, y=0, tag=None):
        self.x, self.y, self.tag = x, y, tag

    def __eq__(self, o):
        return type(o) is Point and (self.x, self.y, self.tag) == (o.x, o.y, o.tag)

    def __hash__(self):
        return hash((self.x, self.y))

    def __repr__(self):
        return "Point(%r,%r,%r)" % (self.x, self.y, self.tag)


class MyStr(str):
    pass


class MyInt(int):
    pass


class SimInterrupt(BaseException):
    """A BaseException subclass shaped like gevent.Timeout."""


class XBase(Exception):
    """Exception hierarchy used by the RetryingClient checks."""


class XSubA(XBase):
    pass


class XSubB(XBase):
    pass


class XUnrelated(Exception):
    pass


_OBJ = {"Point": Point, "MyStr": MyStr, "MyInt": MyInt}

_EXC = {
    "KeyboardInterrupt": KeyboardInterrupt,
    "SystemExit": SystemExit,
    "SimInterrupt": SimInterrupt,
    "XBase": XBase, "XSubA": XSubA, "XSubB": XSubB, "XUnrelated": XUnrelated,
}


def exc_class(name):
    c = _EXC.get(name)
    if c is None:
        import builtins
        c = getattr(builtins, name, None)
        if c is None:
            import pymemcache.exceptions as pe
            c = getattr(pe, name)
        _EXC[name] = c
    return c


def enc(v):
    """Python value -> JSON-able value."""
    t = type(v)
    if v is None or t is bool or t is str:
        return v
    if t is int:
        return v
    if t is float:
        if v != v or v in (float("inf"), float("-inf")):
            return {"$f": repr(v)}
        return v
    if t is bytes or t is bytearray:
        return {"$b": bytes(v).decode("latin-1")}
    if t is list:
        return [enc(x) for x in v]
    if t is tuple:
        return {"$t": [enc(x) for x in v]}
    if t is set or t is frozenset:
        items = sorted((enc(x) for x in v), key=lambda j: json.dumps(j, sort_keys=True))
        return {"$set" if t is set else "$fs": items}
    if t is dict:
        if all(type(k) is str and not k.startswith("$") for k in v):
            return {k: enc(x) for k, x in v.items()}
        return {"$d": [[enc(k), enc(x)] for k, x in v.items()]}
    if t is Sentinel:
        return {"$s": v.name}
    if t is decimal.Decimal:
        return {"$dec": str(v)}
    if t is Point:
        return {"$obj": ["Point", enc([v.x, v.y, v.tag])]}
    if t is MyStr:
        return {"$obj": ["MyStr", str(v)]}
    if t is MyInt:
        return {"$obj": ["MyInt", int(v)]}
    if isinstance(v, type) and issubclass(v, BaseException):
        return {"$exc": v.__name__}
    if isinstance(v, BaseException):
        return {"$raised": [type(v).__name__, enc(list(v.args))]}
    if isinstance(v, type({}.keys())):
        return {"$keys": [enc(k) for k in v]}
    # anything else: stable textual description (only for results, never decoded)
    return {"$repr": "%s:%s" % (type(v).__name__, _safe_repr(v))}


def _safe_repr(v):
    try:
        r = repr(v)
    except Exception:
        r = "?"
    if " at 0x" in r:
        r = r.split(" at 0x")[0] + ">"
    return r[:200]


def dec(j):
    """JSON-able value -> Python value."""
    if isinstance(j, list):
        return [dec(x) for x in j]
    if isinstance(j, dict):
        if len(j) == 1:
            (k, x), = j.items()
            if k == "$b":
                return x.encode("latin-1")
            if k == "$t":
                return tuple(dec(i) for i in x)
            if k == "$set":
                return {dec(i) for i in x}
            if k == "$fs":
                return frozenset(dec(i) for i in x)
            if k == "$d":
                return {dec(a): dec(b) for a, b in x}
            if k == "$iter":
                return iter([dec(i) for i in x])
            if k == "$keys":
                return {dec(i): None for i in x}.keys()
            if k == "$s":
                return Sentinel(x)
            if k == "$f":
                return float(x)
            if k == "$dec":
                return decimal.Decimal(x)
            if k == "$exc":
                return exc_class(x)
            if k == "$cls":
                return {"int": int, "str": str, "object": object}[x]
            if k == "$obj":
                name, st = x
                if name == "Point":
                    return Point(*dec(st))
                return _OBJ[name](st)
            if k in ("$serde", "$repr", "$raised"):
                return j
        return {k: dec(x) for k, x in j.items()}
    return j


def canon(j):
    """Canonical text of an encoded value (for digests)."""
    return json.dumps(j, sort_keys=True, separators=(",", ":"))

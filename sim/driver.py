"""Parallel seeded driver, minimiser, replay, evidence and known-findings plumbing.

Exit codes: 0 held (KNOWN-FINDING lines allowed); 1 unlisted violation (VIOLATION
line printed); 2 harness error (never a pass, never a violation).
"""
import argparse
import copy
import faulthandler
import hashlib
import json
import multiprocessing
import os
import random
import subprocess
import sys
import time
import traceback
from collections import Counter
from concurrent.futures import ProcessPoolExecutor, wait, FIRST_COMPLETED

VERIF = os.path.dirname(os.path.dirname(os.path.abspath(__file__)))
KNOWN_PATH = os.path.join(VERIF, "known_findings.json")
MAX_REPORTED = 4


def ensure_hashseed():
    if os.environ.get("PYTHONHASHSEED") != os.environ.get("VERIF_HASHSEED", "0"):
        env = dict(os.environ)
        env["PYTHONHASHSEED"] = os.environ.get("VERIF_HASHSEED", "0")
        os.execve(sys.executable, [sys.executable] + sys.argv, env)


def unit_seed(base, idx):
    return base * (1 << 32) + idx


# --------------------------------------------------------------------------
# worker side
_PROP = None


def _load_prop(pid):
    global _PROP
    if _PROP is None or _PROP.id != pid:
        import importlib
        mod = importlib.import_module("sim.props." + pid.lower())
        _PROP = mod.PROP
    return _PROP


def first_violation(res):
    return res.violations[0] if res.violations else None


def vsig(v):
    return (v["oracle"], v.get("method"), v.get("disc"))


def run_block(pid, tier, base_seed, lo, hi, selfcheck_every):
    """Executes units lo..hi-1; returns a summary dict."""
    faulthandler.dump_traceback_later(600, exit=True)
    try:
        return _run_block(pid, tier, base_seed, lo, hi, selfcheck_every)
    finally:
        faulthandler.cancel_dump_traceback_later()


def _run_block(pid, tier, base_seed, lo, hi, selfcheck_every):
    prop = _load_prop(pid)
    out = {"lo": lo, "hi": hi, "scenarios": 0, "units": 0, "traces": set(), "stats": Counter(),
           "viol": [], "samples": [], "skipped": 0, "sim_seconds": 0.0, "harness": None,
           "states": set()}
    t_end = None
    for idx in range(lo, hi):
        seed = unit_seed(base_seed, idx)
        rng = random.Random(seed)
        try:
            scns = prop.gen(rng, idx, tier)
        except Exception:
            out["harness"] = "gen failed for unit %d:\n%s" % (idx, traceback.format_exc())
            return out
        out["units"] += 1
        for j, scn in enumerate(scns):
            scn.setdefault("property", pid)
            scn["seed"] = seed
            scn["unit"] = [idx, j]
            try:
                res = prop.run(scn)
            except Exception:
                out["harness"] = "run failed for unit %d/%d:\n%s\n%s" % (
                    idx, j, traceback.format_exc(), json.dumps(scn)[:3000])
                return out
            out["scenarios"] += 1
            if selfcheck_every and (out["scenarios"] % selfcheck_every == 1):
                res2 = prop.run(copy.deepcopy(scn))
                if res2.digest != res.digest:
                    out["harness"] = "nondeterminism: unit %d/%d digest %s vs %s\n%s" % (
                        idx, j, res.digest, res2.digest, json.dumps(scn)[:3000])
                    return out
                out["stats"]["selfcheck:rerun-equal"] += 1
            if res.skipped:
                out["skipped"] += 1
                out["stats"]["skipped:" + res.skipped] += 1
                continue
            w = res.world
            if w is not None:
                out["stats"].update(w.stats)
                out["sim_seconds"] += w.clock.now - 1_700_000_000.0
            key, nontrivial = prop.trace_key(scn, res)
            if nontrivial:
                out["traces"].add(hashlib.blake2b(repr(key).encode(), digest_size=8).digest())
            for s in prop.state_keys(scn, res):
                out["states"].add(s)
            for name, n in prop.probes(scn, res).items():
                if n:
                    out["stats"]["probe:" + name] += n
            if res.violations:
                out["stats"]["violating-scenarios"] += 1
                if len(out["viol"]) < 40:
                    v = first_violation(res)
                    if not any(vsig(v) == vsig(x[1]) for x in out["viol"]) or len(out["viol"]) < 8:
                        out["viol"].append((scn, v, res.digest))
            if len(out["samples"]) < 3 and (nontrivial or idx == lo):
                out["samples"].append(prop.sample(scn, res))
    return out


# --------------------------------------------------------------------------
# known findings
def load_known(pid):
    if not os.path.exists(KNOWN_PATH):
        return []
    with open(KNOWN_PATH) as f:
        data = json.load(f)
    return [e for e in data.get("findings", []) if e["property"] == pid]


def match_known(v, entries):
    for e in entries:
        if e.get("status") != "open":
            continue
        m = e["match"]
        ok = True
        for k, want in m.items():
            have = v.get(k)
            if isinstance(want, list):
                if have not in want:
                    ok = False
            elif have != want:
                ok = False
        if ok:
            return e
    return None


# --------------------------------------------------------------------------
# minimiser
def _same(prop, scn, sig):
    try:
        res = prop.run(copy.deepcopy(scn))
    except Exception:
        return False
    v = first_violation(res)
    return v is not None and vsig(v) == sig


def minimise(prop, scn, sig, budget_s=25.0, max_runs=400):
    t0 = time.time()
    runs = [0]

    def ok(c):
        if runs[0] >= max_runs or time.time() - t0 > budget_s:
            return False
        runs[0] += 1
        return _same(prop, c, sig)

    if hasattr(prop, "minimise"):
        return prop.minimise(scn, sig, ok), runs[0]
    cur = copy.deepcopy(scn)
    # 1. ddmin over steps
    n = 2
    steps = cur["steps"]
    keep = getattr(prop, "must_keep_step", lambda st: False)
    while len(steps) >= 2:
        chunk = max(1, len(steps) // n)
        removed = False
        for i in range(0, len(steps), chunk):
            cand_steps = steps[:i] + [st for st in steps[i:i + chunk] if keep(st)] + steps[i + chunk:]
            if len(cand_steps) == len(steps):
                continue
            cand = dict(cur)
            cand["steps"] = cand_steps
            if cand_steps and ok(cand):
                cur, steps = cand, cand_steps
                n = max(n - 1, 2)
                removed = True
                break
        if not removed:
            if chunk == 1:
                break
            n = min(n * 2, len(steps))
    # 2. per-step simplification
    for i in range(len(cur["steps"])):
        st = cur["steps"][i]
        for fi in range(len(st.get("faults") or ()) - 1, -1, -1):
            cand = copy.deepcopy(cur)
            del cand["steps"][i]["faults"][fi]
            if ok(cand):
                cur = cand
        st = cur["steps"][i]
        if st.get("net"):
            for repl in (None, {"seg": st["net"].get("seg") or [0]}):
                cand = copy.deepcopy(cur)
                if repl is None:
                    cand["steps"][i].pop("net", None)
                else:
                    cand["steps"][i]["net"] = repl
                if cand != cur and ok(cand):
                    cur = cand
                    break
    # 3. world simplification
    w = cur["world"]
    if (w.get("knobs") or {}).get("recv_size", 4096) != 4096:
        cand = copy.deepcopy(cur)
        cand["world"]["knobs"].pop("recv_size")
        if ok(cand):
            cur = cand
    for k in list((cur["world"].get("client_kwargs") or {}).keys()) if getattr(prop, "minimise_kwargs", True) else ():
        cand = copy.deepcopy(cur)
        del cand["world"]["client_kwargs"][k]
        if ok(cand):
            cur = cand
    for extra in prop.shrink_candidates(cur):
        if ok(extra):
            cur = extra
    return cur, runs[0]


# --------------------------------------------------------------------------
def write_replay(pid, scn, v, digest, orig_seed, tag):
    os.makedirs(os.path.join(VERIF, "replays"), exist_ok=True)
    path = os.path.join(VERIF, "replays", "%s-%s.json" % (pid, tag))
    doc = {"property": pid, "seed": orig_seed, "violation": v, "digest": digest, "scenario": scn}
    with open(path, "w") as f:
        json.dump(doc, f, indent=1, default=repr)   # key order is significant (dict arguments)
    return path


def replay_file(pid, path):
    prop = _load_prop(pid)
    with open(path) as f:
        doc = json.load(f)
    res = prop.run(doc["scenario"])
    v = first_violation(res)
    if v is None:
        print("replay: no violation reproduced (expected %s)" % (doc["violation"].get("oracle"),))
        return 0
    same = vsig(v) == tuple(vsig(doc["violation"]))
    print("replay: violation oracle=%s method=%s disc=%s digest=%s (%s)" % (
        v["oracle"], v.get("method"), v.get("disc"), res.digest,
        "matches" if same and res.digest == doc.get("digest") else
        "DIFFERS from recorded %s" % doc.get("digest")))
    print(json.dumps(v, default=repr)[:2000])
    known = match_known(v, load_known(pid))
    if known is not None:
        print("KNOWN-FINDING: property=%s %s" % (pid, known["what"]))
        return 0
    print("VIOLATION property=%s replay=%s" % (pid, path))
    return 1


def _digest_block(pid, tier, seed, lo, hi):
    prop = _load_prop(pid)
    out = {}
    for idx in range(lo, hi):
        rng = random.Random(unit_seed(seed, idx))
        ds = []
        nv = 0
        for scn in prop.gen(rng, idx, tier):
            scn.setdefault("property", pid)
            res = prop.run(scn)
            ds.append(res.digest)
            nv += len(res.violations or ())
        out[idx] = [hashlib.sha256("".join(ds).encode()).hexdigest(), len(ds), nv]
    return out


def digests_mode(pid, args):
    units = args.units or 32
    workers = args.workers or 1
    out = {}
    if workers == 1:
        out = _digest_block(pid, args.tier, args.seed, 0, units)
    else:
        ctx = multiprocessing.get_context("fork")
        step = max(1, units // (workers * 2))
        with ProcessPoolExecutor(max_workers=workers, mp_context=ctx) as ex:
            futs = [ex.submit(_digest_block, pid, args.tier, args.seed, lo, min(lo + step, units))
                    for lo in range(0, units, step)]
            for f in futs:
                out.update(f.result())
    with open(args.digests, "w") as f:
        json.dump({str(k): v for k, v in sorted(out.items())}, f)
    print("digests: %d units -> %s" % (len(out), args.digests))
    return 0


def _jsonable(v):
    return json.loads(json.dumps(v, default=repr))


def main(argv=None):
    ap = argparse.ArgumentParser()
    ap.add_argument("prop")
    ap.add_argument("--tier", default=os.environ.get("VERIF_TIER", "quick"))
    ap.add_argument("--seed", type=int, default=int(os.environ.get("VERIF_SEED", "0") or 0))
    ap.add_argument("--workers", type=int, default=int(os.environ.get("VERIF_WORKERS", "0") or 0))
    ap.add_argument("--units", type=int, default=0)
    ap.add_argument("--budget-s", type=float, default=0)
    ap.add_argument("--scale", type=float, default=float(os.environ.get("VERIF_SCALE", "1") or 1),
                    help="multiply the tier's planned number of work units (for matrix / smoke runs)")
    ap.add_argument("--replay")
    ap.add_argument("--no-evidence", action="store_true")
    ap.add_argument("--dump-unit", type=int, default=None)
    ap.add_argument("--digests", help="write {unit: [scenario digests, violations]} for the first --units units to this file and exit")
    args = ap.parse_args(argv)
    pid = args.prop.upper()
    sys.path.insert(0, VERIF)
    prop = _load_prop(pid)
    if args.replay:
        return replay_file(pid, args.replay)
    if args.digests:
        return digests_mode(pid, args)
    if args.dump_unit is not None:
        rng = random.Random(unit_seed(args.seed, args.dump_unit))
        for scn in prop.gen(rng, args.dump_unit, args.tier):
            res = prop.run(scn)
            print(json.dumps(scn))
            for c in res.calls:
                print("  ", c.step, c.method, c.enc_outcome(), c.fired)
            print("  violations:", res.violations, "skipped:", res.skipped)
        return 0

    tier = args.tier
    plan = prop.plan(tier)
    units = args.units or max(1, int(plan["units"] * args.scale))
    budget = args.budget_s or plan["budget_s"]
    workers = args.workers or min(16, os.cpu_count() or 1)
    block = plan.get("block", 50)
    print("seed=%d property=%s tier=%s units=%d budget_s=%s workers=%d repo=%s" % (
        args.seed, pid, tier, units, budget, workers, os.environ.get("VERIF_REPO", "/repo")))
    sys.stdout.flush()
    t0 = time.time()
    deadline = t0 + budget
    agg = {"scenarios": 0, "units": 0, "traces": set(), "stats": Counter(), "viol": [],
           "samples": [], "skipped": 0, "sim_seconds": 0.0, "states": set()}
    harness = None
    ctx = multiprocessing.get_context("fork")
    blocks = [(lo, min(lo + block, units)) for lo in range(0, units, block)]
    results = {}
    truncated = False
    try:
        with ProcessPoolExecutor(max_workers=workers, mp_context=ctx) as ex:
            pending = set()
            it = iter(blocks)
            done_submitting = False
            while True:
                while not done_submitting and len(pending) < workers * 2:
                    if time.time() > deadline:
                        truncated = True
                        done_submitting = True
                        break
                    try:
                        lo, hi = next(it)
                    except StopIteration:
                        done_submitting = True
                        break
                    pending.add(ex.submit(run_block, pid, tier, args.seed, lo, hi,
                                          plan.get("selfcheck_every", 97)))
                if not pending:
                    break
                done, pending = wait(pending, timeout=max(1.0, deadline + 600 - time.time()),
                                     return_when=FIRST_COMPLETED)
                if not done:
                    harness = "worker wall-clock watchdog expired"
                    break
                for fu in done:
                    r = fu.result()
                    results[r["lo"]] = r
                    if r["harness"]:
                        harness = r["harness"]
                if harness:
                    for p in pending:
                        p.cancel()
                    break
    except Exception:
        harness = "driver/worker failure:\n" + traceback.format_exc()
    for lo in sorted(results):
        r = results[lo]
        agg["scenarios"] += r["scenarios"]
        agg["units"] += r["units"]
        agg["traces"] |= r["traces"]
        agg["states"] |= r["states"]
        agg["stats"].update(r["stats"])
        agg["viol"].extend(r["viol"])
        agg["skipped"] += r["skipped"]
        agg["sim_seconds"] += r["sim_seconds"]
        if len(agg["samples"]) < 3:
            agg["samples"].extend(r["samples"][: 3 - len(agg["samples"])])
    if harness:
        print("HARNESS-ERROR property=%s\n%s" % (pid, harness))
        return 2
    wall_explore = time.time() - t0

    # ---- violations: confirm, minimise, replay in a fresh interpreter, classify
    known_entries = load_known(pid)
    by_sig = {}
    for scn, v, dg in agg["viol"]:
        by_sig.setdefault(vsig(v), []).append((scn, v, dg))
    known_seen = {}
    new_violations = []
    unprocessed = 0
    for sig in sorted(by_sig, key=repr):
        scn, v, dg = min(by_sig[sig], key=lambda x: (len(x[0]["steps"]), x[0]["seed"]))
        e = match_known(v, known_entries)
        if e is not None:
            known_seen.setdefault(e["id"], [e, 0])[1] += len(by_sig[sig])
            continue
        if len(new_violations) >= MAX_REPORTED:
            unprocessed += 1
            continue
        res = prop.run(copy.deepcopy(scn))
        v2 = first_violation(res)
        if v2 is None or vsig(v2) != sig or res.digest != dg:
            print("HARNESS-ERROR property=%s violation did not reproduce in-process: %r" % (pid, sig))
            return 2
        small, nruns = minimise(prop, scn, sig)
        sres = prop.run(copy.deepcopy(small))
        sv = first_violation(sres)
        tag = "%d-%s" % (scn["seed"], hashlib.sha1(repr(sig).encode()).hexdigest()[:8])
        path = write_replay(pid, small, _jsonable(sv), sres.digest, scn["seed"], tag)
        env = dict(os.environ)
        cp = subprocess.run([os.path.join(VERIF, "check"), pid, "--replay", path],
                            capture_output=True, text=True, env=env, timeout=120)
        if "VIOLATION property=%s" % pid not in cp.stdout or "matches" not in cp.stdout:
            print("HARNESS-ERROR property=%s replay in fresh interpreter did not reproduce:\n%s\n%s"
                  % (pid, cp.stdout[-2000:], cp.stderr[-2000:]))
            return 2
        size = getattr(prop, "size", lambda x: len(x["steps"]))
        new_violations.append((path, sv, size(small), size(scn), nruns))
    # known findings listed but not seen are still announced (they are facts about the tree
    # only if seen; so print only the ones seen)
    for kid in sorted(known_seen):
        e, n = known_seen[kid]
        print("KNOWN-FINDING: property=%s %s [%s, %d scenario(s) this run]" % (pid, e["what"], kid, n))
    for path, sv, n1, n0, nruns in new_violations:
        print("violation: oracle=%s method=%s disc=%s  (minimised %d -> %d steps in %d runs)" % (
            sv["oracle"], sv.get("method"), sv.get("disc"), n0, n1, nruns))
        print("  " + json.dumps(sv, default=repr)[:1500])
        print("VIOLATION property=%s replay=%s" % (pid, path))

    if unprocessed:
        print("(+%d further distinct violation signatures not minimised)" % unprocessed)
    wall = time.time() - t0
    if not args.no_evidence:
        st = agg["stats"]
        faults = {k[6:]: v for k, v in sorted(st.items()) if k.startswith("fault:")}
        events = {k[3:]: v for k, v in sorted(st.items()) if k.startswith("ev:")}
        probes = {k[6:]: v for k, v in sorted(st.items()) if k.startswith("probe:")}
        for name in prop.probe_names():
            probes.setdefault(name, 0)
        ev = {
            "property_id": pid, "tier": tier, "seed": args.seed, "level": prop.level,
            "coverage": {
                "evaluations": agg["scenarios"],
                "distinct_nontrivial": len(agg["traces"]),
                "rule": prop.rule,
                "samples": _jsonable(agg["samples"]),
                "work_units": agg["units"],
                "units_planned": units,
                "truncated_by_budget": truncated,
                "scenarios_skipped_unjudged": agg["skipped"],
                "distinct_states": len(agg["states"]),
                "state_measure": prop.state_measure,
                "seeds_per_hour": int(agg["units"] / max(wall_explore, 1e-6) * 3600),
                "scenarios_per_hour": int(agg["scenarios"] / max(wall_explore, 1e-6) * 3600),
                "simulated_seconds": round(agg["sim_seconds"], 3),
                "faults_fired": faults,
                "socket_events": events,
                "probes": probes,
                "probes_unreached": sorted(k for k, v in probes.items() if not v),
                "observations": {k[4:]: v for k, v in sorted(st.items()) if k.startswith("obs:")},
                "other_counters": {k: v for k, v in sorted(st.items())
                                   if not k.startswith(("fault:", "ev:", "probe:", "obs:"))},
                "components": prop.components,
                "known_findings_seen": sorted(known_seen),
                "workers": workers,
                "exhaustive": bool(getattr(prop, "is_exhaustive", lambda t, tr: False)(tier, truncated)),
            },
            "assumptions": prop.assumptions,
            "wall_s": round(wall, 2),
            "violations": len(new_violations),
        }
        os.makedirs(os.path.join(VERIF, "evidence"), exist_ok=True)
        with open(os.path.join(VERIF, "evidence", pid + ".json"), "w") as f:
            json.dump(ev, f, indent=1, sort_keys=True)
    print("done property=%s scenarios=%d units=%d distinct_nontrivial=%d skipped=%d wall=%.1fs "
          "violations=%d known=%d%s" % (pid, agg["scenarios"], agg["units"], len(agg["traces"]),
                                        agg["skipped"], wall, len(new_violations), len(known_seen),
                                        " (budget-truncated)" if truncated else ""))
    return 1 if new_violations else 0

"""Executor: scenario document -> Result.  A pure function of (scenario, code under
/repo): draws nothing, reads no real clock, opens no real socket.
"""
import gc
import hashlib
import json
import logging
import os
import sys
import types
import zlib
import bz2
import lzma

REPO = os.environ.get("VERIF_REPO", "/repo")
if sys.path[0] != REPO:
    sys.path.insert(0, REPO)

import pymemcache  # noqa: E402
import pymemcache.pool as _pool_mod  # noqa: E402
import pymemcache.client.base as _base  # noqa: E402
import pymemcache.client.hash as _hash_mod  # noqa: E402
import pymemcache.client.retrying as _retry_mod  # noqa: E402
import pymemcache.fallback as _fallback_mod  # noqa: E402
import pymemcache.client.ext.aws_ec_client as _aws_mod  # noqa: E402
import pymemcache.serde as _serde_mod  # noqa: E402

assert os.path.realpath(pymemcache.__file__).startswith(os.path.realpath(REPO) + os.sep), (
    "pymemcache imported from %s, expected under %s" % (pymemcache.__file__, REPO))

from . import codec  # noqa: E402
from .world import World, SimSocket, SimTLSSocket, SimNet, SimTLSContext  # noqa: E402

logging.disable(logging.CRITICAL)

SIM_DIR = os.path.dirname(os.path.abspath(__file__))
DEFAULT_RECV_SIZE = 4096


class HarnessError(Exception):
    pass


class _Cur:
    world = None


_MONO_SKEW = 1.7e9 - 5000.0     # monotonic() starts near 5000 s when the wall clock is at the simulated epoch


class _TimeShim:
    """Replaces the `time` module object inside pymemcache modules."""

    @staticmethod
    def time():
        return _Cur.world.clock.now

    @staticmethod
    def monotonic():
        # a clock with an origin of its own: code that subtracts one clock from the other must be seen to
        return _Cur.world.clock.now - _MONO_SKEW

    @staticmethod
    def sleep(dt):
        _Cur.world.clock.sleep(dt)


    @staticmethod
    def time_ns():
        return int(_Cur.world.clock.now * 1e9)

    @staticmethod
    def monotonic_ns():
        return int((_Cur.world.clock.now - _MONO_SKEW) * 1e9)

    perf_counter = monotonic

    def __getattr__(self, name):          # anything else (strftime, struct_time, ...) is clock-free
        return getattr(_real_time, name)


import time as _real_time  # noqa: E402

_shim = _TimeShim()
_CLOCK_FUNCS = {_real_time.time: _shim.time, _real_time.monotonic: _shim.monotonic,
                _real_time.sleep: _shim.sleep, _real_time.perf_counter: _shim.perf_counter,
                _real_time.time_ns: _shim.time_ns, _real_time.monotonic_ns: _shim.monotonic_ns}


def _install_clock_seam():
    """Every module of the package under test reads the simulated clock: wherever one of them holds the `time`
    module or one of its clock functions (however imported), it is replaced by the shim."""
    for name, mod in sorted(sys.modules.items()):
        if mod is None or not (name == "pymemcache" or name.startswith("pymemcache.")):
            continue
        if name.startswith("pymemcache.test"):
            continue
        for attr, val in list(vars(mod).items()):
            if val is _real_time:
                setattr(mod, attr, _shim)
            else:
                try:
                    repl = _CLOCK_FUNCS.get(val)
                except TypeError:
                    repl = None
                if repl is not None:
                    setattr(mod, attr, repl)


_install_clock_seam()
assert _hash_mod.time is _shim and _pool_mod.time is _shim and _aws_mod.time is _shim
assert _retry_mod.sleep == _shim.sleep


# ---------------------------------------------------------------- process-global state of the package
# One scenario = one process, as far as the package under test can tell: whatever mutable containers its modules
# and classes hold at import time are put back before every scenario, so that state leaking from one scenario
# into the next (a class-level dict that should have been per-instance, a module-level cache) cannot make a run
# depend on which scenarios the worker happened to execute before it.  Within a scenario such state is of
# course left alone - two clients of one scenario do see each other's leaks.
import collections as _collections  # noqa: E402
import copy as _copy  # noqa: E402

_MUTABLE = (dict, list, set, _collections.deque, bytearray)


def _package_state_sites():
    sites = []
    for name, mod in sorted(sys.modules.items()):
        if mod is None or not (name == "pymemcache" or name.startswith("pymemcache.")):
            continue
        if name.startswith("pymemcache.test"):
            continue
        for attr, val in sorted(vars(mod).items()):
            if attr.startswith("__"):
                continue
            if isinstance(val, _MUTABLE):
                sites.append((mod, attr))
            elif isinstance(val, type) and getattr(val, "__module__", None) == name:
                for a2, v2 in sorted(vars(val).items()):
                    if not a2.startswith("__") and isinstance(v2, _MUTABLE):
                        sites.append((val, a2))
    return sites


_BASELINE = [(o, a, _copy.deepcopy(vars(o)[a])) for o, a in _package_state_sites()]


def _package_caches():
    """functools caches (lru_cache / cache) living in the package: process-global state as well."""
    out = []
    for name, mod in sorted(sys.modules.items()):
        if mod is None or not (name == "pymemcache" or name.startswith("pymemcache.")):
            continue
        if name.startswith("pymemcache.test"):
            continue
        for attr, val in sorted(vars(mod).items()):
            if callable(getattr(val, "cache_clear", None)):
                out.append(val)
            elif isinstance(val, type) and getattr(val, "__module__", None) == name:
                for a2, v2 in sorted(vars(val).items()):
                    f = getattr(v2, "__func__", v2)
                    if callable(getattr(f, "cache_clear", None)):
                        out.append(f)
    return out


_CACHES = _package_caches()


def restore_package_state():
    n = 0
    for c in _CACHES:
        c.cache_clear()
    for o, a, base in _BASELINE:
        cur = vars(o).get(a)
        if type(cur) is type(base) and cur == base:
            continue
        n += 1
        fresh = _copy.deepcopy(base)
        if type(cur) is type(base) and isinstance(cur, (dict, set)):
            cur.clear()
            cur.update(fresh)
        elif type(cur) is type(base) and isinstance(cur, (list, _collections.deque, bytearray)):
            cur.clear()
            cur.extend(fresh)
        else:
            setattr(o, a, fresh)
    return n


# ---------------------------------------------------------------- serdes
from . import userserde as _userserde  # noqa: E402
from .userserde import JSONSerde, FailingSerde, _Plain, DeserError  # noqa: E402

_CODECS = {
    "zlib": (zlib.compress, zlib.decompress),
    "bz2": (bz2.compress, bz2.decompress),
    "lzma": (lzma.compress, lzma.decompress),
    "id": (lambda b: b, lambda b: b),
}


def make_serde(spec):
    if spec is None:
        return None
    if isinstance(spec, dict) and "$serde" in spec:
        spec = spec["$serde"]
    kind = spec["kind"]
    if kind == "pickle":
        return _serde_mod.PickleSerde(spec.get("proto", _serde_mod.DEFAULT_PICKLE_VERSION))
    if kind == "compressed":
        codec_name = spec.get("codec", "zlib")
        inner = _serde_mod.PickleSerde(spec.get("proto", _serde_mod.DEFAULT_PICKLE_VERSION))
        if codec_name == "zlib":
            # the library's own defaults (zlib), not functions handed in by the harness
            return _serde_mod.CompressedSerde(serde=inner, min_compress_len=spec.get("min", 400))
        c, d = _CODECS[codec_name]
        return _serde_mod.CompressedSerde(compress=c, decompress=d, serde=inner,
                                          min_compress_len=spec.get("min", 400))
    if kind == "json":
        return JSONSerde(spec.get("f_str", 1), spec.get("f_json", 2))
    if kind == "faildeser":
        return FailingSerde(make_serde(spec.get("inner")) or _Plain())
    raise ValueError("unknown serde %r" % (spec,))


# ---------------------------------------------------------------- stacks
def _client_kwargs(world, kw):
    out = {}
    for k, v in (kw or {}).items():
        if k == "serde":
            out[k] = make_serde(v)
        elif k in ("serializer", "deserializer"):
            out[k] = _userserde.FUNCS[v["$fn"]] if isinstance(v, dict) and "$fn" in v else None
        elif k == "socket_keepalive":
            out[k] = _base.KeepaliveOpts(**v) if v else None
        else:
            out[k] = codec.dec(v)
    out["socket_module"] = world.net
    if world.tls:
        out["tls_context"] = world.tls_context
    return out


def build_stack(world, wspec):
    stack = wspec.get("stack", "client")
    kw = _client_kwargs(world, wspec.get("client_kwargs"))
    servers = [codec.dec(s) for s in wspec.get("servers", ())]
    if stack == "client":
        return _base.Client(servers[0], **kw)
    if stack == "pooled":
        return _base.PooledClient(servers[0], **kw)
    if stack == "hash":
        return _hash_mod.HashClient(servers, **kw)
    if stack == "retrying_stub":
        rk = {k: codec.dec(v) for k, v in (wspec.get("retry_kwargs") or {}).items()}
        stub = (ScriptedChild if wspec.get("stub_inherits") else ScriptedClient)(wspec.get("script") or [])
        stub.falsy = bool(wspec.get("stub_falsy"))
        world.stub = stub
        rc = _retry_mod.RetryingClient(stub, **rk)
        if wspec.get("stub_late"):
            # a callable the application hangs on the wrapped client AFTER wrapping it: reachable through the
            # wrapper, but not among the names the wrapper saw at construction
            stub.late_op = stub.op
        return rc
    if stack == "retrying":
        rk = {k: codec.dec(v) for k, v in (wspec.get("retry_kwargs") or {}).items()}
        inner_kind = wspec.get("inner", "client")
        if inner_kind == "client":
            inner = _base.Client(servers[0], **kw)
        elif inner_kind == "pooled":
            inner = _base.PooledClient(servers[0], **kw)
        else:
            inner = _hash_mod.HashClient(servers, **kw)
        return _retry_mod.RetryingClient(inner, **rk)
    if stack == "fallback":
        caches = []
        for i, s in enumerate(servers):
            ckw = dict(kw)
            per = (wspec.get("per_cache_kwargs") or [{}] * len(servers))[i]
            ckw.update({k: codec.dec(v) for k, v in per.items()})
            caches.append(_base.Client(s, **ckw))
        return _fallback_mod.FallbackClient(caches)
    if stack == "aws":
        return _aws_mod.AWSElastiCacheHashClient(wspec["cfg_node"], **kw)
    raise ValueError("unknown stack %r" % stack)


class ScriptedClient:
    """Stub inner client for C17(a): each invocation of op() consumes one scripted outcome."""

    def __init__(self, script):
        self.script = list(script)
        self.calls = []
        self.produced = []

    def op(self, *args, **kwargs):
        self.calls.append((args, kwargs))
        i = len(self.calls) - 1
        o = self.script[i] if i < len(self.script) else "ok"
        if o == "ok":
            # a successful result: an opaque object - or, when asked for, a falsy one (a fresh empty list, so that
            # "returned unchanged" can still be checked by identity)
            r = [] if getattr(self, "falsy", False) else codec.Sentinel("result-%d" % i)
            self.produced.append(r)
            return r
        e = codec.exc_class(o)("scripted failure %d" % i)
        self.produced.append(e)
        raise e

    # the magic-method paths of RetryingClient go through set/get/delete
    def set(self, *a, **k):
        return self.op("set", *a, **k)

    def get(self, *a, **k):
        return self.op("get", *a, **k)

    def delete(self, *a, **k):
        return self.op("delete", *a, **k)

    # every other command name a wrapped client offers is retried the same way
    def _named(name):
        def f(self, *a, **k):
            return self.op(name, *a, **k)
        f.__name__ = name
        return f

    for _n in ("incr", "decr", "append", "prepend", "add", "replace", "touch", "cas", "get_many", "set_many",
               "delete_many", "flush_all", "gets"):
        locals()[_n] = _named(_n)
    del _n, _named


# ---------------------------------------------------------------- result
class CallRec:
    __slots__ = ("step", "id", "method", "outcome", "value", "exc", "fired", "commands",
                 "sent", "received", "kinds", "socks_created", "pieces", "t0", "t1",
                 "ev0", "ev1", "extra", "raw")

    def enc_outcome(self):
        if self.outcome == "return":
            return ["return", codec.enc(self.value)]
        return ["raise", type(self.exc).__name__, _exc_text(self.exc)]


_ADDR = __import__("re").compile(r"0x[0-9a-fA-F]{6,}")


def _exc_text(e):
    """Exception text for logs and digests; memory addresses (default object reprs) are not part of a run."""
    try:
        return _ADDR.sub("0x?", str(e))[:120]
    except Exception:
        return "?"


class Result:
    def __init__(self):
        self.calls = []
        self.world = None
        self.client = None
        self.violations = []
        self.digest = None
        self.skipped = None    # reason a scenario was not judged (e.g. ambiguous timing)
        self.extra = {}

    def by_step(self, i):
        for c in self.calls:
            if c.step == i:
                return c
        return None


def _is_sim_exc(e):
    if isinstance(e, OSError) and ("sim:" in str(e) or (e.args and "sim:" in str(e.args[-1]))):
        return True
    if isinstance(e, (KeyboardInterrupt, SystemExit, codec.SimInterrupt)) and e.args and \
            isinstance(e.args[0], str) and e.args[0].startswith("sim:"):
        return True
    if isinstance(e, (DeserError, codec.XBase, codec.XUnrelated)):
        return True
    if e.args and isinstance(e.args[0], str) and e.args[0].startswith("sim:"):
        return True
    return False


def _innermost_file(e):
    tb = e.__traceback__
    fn = None
    name = None
    while tb is not None:
        fn = tb.tb_frame.f_code.co_filename
        name = tb.tb_frame.f_code.co_name
        tb = tb.tb_next
    if isinstance(e, TypeError) and name == "<lambda>" and fn and fn.endswith("engine.py"):
        return ""     # wrong arity at the public call itself: the library's TypeError, not ours
    return fn or ""


CALL_STACK_HEADROOM = 800


def _library_recursed(e):
    """A RecursionError belongs to whoever built the stack, not to the frame that happened to be innermost: when
    hundreds of frames of the package under test are on it, it is the call's own outcome."""
    if not isinstance(e, RecursionError):
        return False
    pkg = os.path.dirname(os.path.abspath(pymemcache.__file__))
    n = 0
    tb = e.__traceback__
    while tb is not None:
        if tb.tb_frame.f_code.co_filename.startswith(pkg):
            n += 1
        tb = tb.tb_next
    return n >= 100


def run_call(world, res, step_no, fn, method, faults=None, net=None, hooks=()):
    """Run one public call at the call boundary; records outcome; returns CallRec."""
    ctx = world.begin_call(step_no, method, faults, net)
    rec = CallRec()
    rec.raw = None
    rec.step, rec.id, rec.method = step_no, ctx.id, method
    rec.t0 = world.clock.now
    rec.ev0 = len(world.events)
    rec.extra = {}
    for h in hooks:
        h.before_call(world, res, rec)
    # every public call gets the same stack headroom, however deep the harness itself happens to stand (worker
    # process, in-process re-execution, fresh-interpreter replay): recursion depth is part of the deterministic run
    depth = 0
    f = sys._getframe()
    while f is not None:
        depth += 1
        f = f.f_back
    old_limit = sys.getrecursionlimit()
    sys.setrecursionlimit(depth + CALL_STACK_HEADROOM)
    try:
        rec.value = fn()
        if type(rec.value) is dict:
            # the record keeps what was returned at that moment: a dict the library (or the application, see the
            # "mutate" step) changes later must not rewrite history
            rec.raw = rec.value
            rec.value = dict(rec.value)
        rec.exc = None
        rec.outcome = "return"
    except BaseException as e:  # the call boundary: what a caller would see
        sys.setrecursionlimit(max(old_limit, depth + CALL_STACK_HEADROOM))
        if isinstance(e, HarnessError):
            raise
        if not isinstance(e, Exception) and not _is_sim_exc(e):
            raise
        if not _is_sim_exc(e) and _innermost_file(e).startswith(SIM_DIR) and \
                not _innermost_file(e).endswith("userserde.py") and not _library_recursed(e):
            raise HarnessError("simulator raised %r" % (e,)) from e
        rec.value = None
        rec.exc = e
        rec.outcome = "raise"
    sys.setrecursionlimit(old_limit)
    rec.fired = list(ctx.fired)
    rec.commands = ctx.commands
    rec.sent, rec.received = ctx.sent, ctx.received
    rec.kinds = dict(ctx.kinds)
    rec.socks_created = ctx.socks
    rec.pieces = ctx.pieces_log
    if ctx.rx is not None:
        rec.extra["rx"] = bytes(ctx.rx)
    rec.t1 = world.clock.now
    rec.ev1 = len(world.events)
    world.end_call(ctx)
    res.calls.append(rec)
    for h in hooks:
        h.after_call(world, res, rec)
    return rec


def resolve_target(client, path):
    obj = client
    for p in path or ():
        if isinstance(p, int):
            obj = obj[p]
        else:
            obj = getattr(obj, p)
    return obj


def resolve_refs(j, res):
    """{"$tok": [step, key-or-null]} -> the cas token an earlier gets-like call returned."""
    if isinstance(j, dict):
        if len(j) == 1 and "$tok" in j:
            step, key = j["$tok"]
            rec = res.by_step(step)
            tok = None
            if rec is not None and rec.outcome == "return":
                v = rec.value
                if isinstance(v, tuple) and len(v) == 2:
                    tok = v[1]
                elif isinstance(v, dict) and key is not None:
                    e = v.get(codec.dec(key))
                    if isinstance(e, tuple) and len(e) == 2:
                        tok = e[1]
            if not isinstance(tok, (bytes, str, int)) or isinstance(tok, bool):
                tok = b"999"
            return codec.enc(tok)
        return {k: resolve_refs(v, res) for k, v in j.items()}
    if isinstance(j, list):
        return [resolve_refs(x, res) for x in j]
    return j


_PKG_LOGGER = logging.getLogger("pymemcache")
_PKG_LOGGER.addHandler(logging.NullHandler())
_PKG_LOGGER.propagate = False


def _set_debug_logging(on):
    """Log records of the package are formatted and dropped (NullHandler): what matters is that the logging calls
    and their `isEnabledFor` branches run as they do in an application that has DEBUG logging switched on."""
    if on:
        logging.disable(logging.NOTSET)
        _PKG_LOGGER.setLevel(logging.DEBUG)
        if not any(isinstance(h, _FormattingSink) for h in _PKG_LOGGER.handlers):
            _PKG_LOGGER.addHandler(_FormattingSink())
    else:
        _PKG_LOGGER.setLevel(logging.NOTSET)
        logging.disable(logging.CRITICAL)


class _FormattingSink(logging.Handler):
    def emit(self, record):
        try:
            record.getMessage()          # lazy %-formatting happens here, as in any real handler
        except Exception:
            pass                         # logging never propagates formatting errors to the application


def _mutate_in_place(v):
    if isinstance(v, list):
        v.append("dirty")
    elif isinstance(v, dict):
        v["dirty"] = True
    elif isinstance(v, set):
        v.add("dirty")
    elif isinstance(v, bytearray):
        v += b"dirty"
    elif isinstance(v, codec.Point):
        v.tag = "dirty"


def execute(scn, hooks=()):
    """Sequential executor."""
    wspec = scn["world"]
    restore_package_state()
    world = World(wspec)
    _Cur.world = world
    _userserde._Cur.world = world
    knobs = wspec.get("knobs") or {}
    _base.RECV_SIZE = knobs.get("recv_size", DEFAULT_RECV_SIZE)
    if knobs.get("log_debug"):
        _set_debug_logging(True)      # the application runs with DEBUG logging for the package (a configuration knob)
    res = Result()
    res.world = world
    if wspec.get("check_timeouts"):
        ck = wspec.get("client_kwargs") or {}
        world.expect_timeouts = (ck.get("connect_timeout"), ck.get("timeout"))
    try:
        init = wspec.get("init") or {}

        def _build():
            res.client = build_stack(world, wspec)
            if isinstance(getattr(res.client, "caches", None), list):
                res.extra["orig_caches"] = list(res.client.caches)      # as configured (see "recache" steps)
            # other client objects living in the same process (steps address them with "by": index)
            res.bystanders = [build_stack(world, b) for b in wspec.get("bystanders") or ()]
            return None

        rec = run_call(world, res, -1, _build, "__init__", init.get("faults"), init.get("net"), hooks)
        if rec.outcome == "raise":
            res.extra["init_failed"] = True
            _finish(res, scn)
            return res
        client = res.client

        def _second_caller(f):
            # a second thread of the application: real thread (locks behave as between threads), run to completion
            # while the first caller stays parked - the simulator, not the OS, decides who runs
            import threading
            err = []

            def body():
                try:
                    for spec in f.get("calls", ()):
                        tg = resolve_target(client, spec.get("on"))
                        a_ = [codec.dec(resolve_refs(x, res)) for x in spec.get("a", ())]
                        k_ = {k: codec.dec(resolve_refs(v, res)) for k, v in (spec.get("k") or {}).items()}
                        r_ = run_call(world, res, -2, (lambda tg=tg, m=spec["m"], a_=a_, k_=k_: getattr(tg, m)(*a_, **k_)),
                                      spec["m"], spec.get("faults"), spec.get("net"), hooks)
                        r_.extra["nested"] = spec
                        r_.extra["nested_args"] = (a_, k_)
                except BaseException as e:      # noqa: B902 - handed to the parked caller's thread below
                    err.append(e)
            t = threading.Thread(target=body, daemon=True)
            t.start()
            t.join(20)
            if t.is_alive():
                raise HarnessError("second caller did not finish: blocked on something the parked caller holds")
            if err:
                raise err[0]
        world.second_caller = _second_caller
        for i, st in enumerate(scn["steps"]):
            t = st["t"]
            if t == "call":
                root = client if st.get("by") is None else res.bystanders[st["by"]]
                target = resolve_target(root, st.get("on"))
                meth = st["m"]
                args = [codec.dec(resolve_refs(a, res)) for a in st.get("a", ())]
                kwargs = {k: codec.dec(resolve_refs(v, res)) for k, v in (st.get("k") or {}).items()}
                # what the judges see: a one-shot iterator is shown as the list of what it will yield (the call itself
                # gets the iterator and may exhaust it)
                shown = [list(codec.dec(resolve_refs(a, res))) if isinstance(a, dict) and "$iter" in a else x
                         for a, x in zip(st.get("a", ()), args)]
                res.extra.setdefault("args", {})[i] = (shown, kwargs)
                if meth == "__getitem__":
                    fn = (lambda tg=target, a=args: tg[a[0]])
                elif meth == "__setitem__":
                    fn = (lambda tg=target, a=args: tg.__setitem__(a[0], a[1]))
                elif meth == "__delitem__":
                    fn = (lambda tg=target, a=args: tg.__delitem__(a[0]))
                else:
                    fn = (lambda tg=target, m=meth, a=args, k=kwargs: getattr(tg, m)(*a, **k))
                run_call(world, res, i, fn, meth, st.get("faults"), st.get("net"), hooks)
            elif t == "advance":
                world.clock.advance(st["dt"])
            elif t == "node":
                world.nodes[st["id"]].health = st.get("health", "up")
            elif t == "direct":
                node = world.nodes[st["node"]]
                if st.get("op", "set") == "set":
                    node.direct_set(codec.dec(st["key"]), codec.dec(st["value"]),
                                    st.get("flags", 0), st.get("exp", 0))
                else:
                    node.direct_delete(codec.dec(st["key"]))
            elif t == "wipe":
                for n in world.nodes.values():     # every server restarts empty (peer-side event)
                    n.store.clear()
            elif t == "mutate":
                # the application modifies the object an earlier fetch handed to it (without writing it back);
                # the recorded result keeps a copy of what was returned
                rec0 = res.by_step(st["ref"])
                if rec0 is not None and rec0.outcome == "return":
                    orig = rec0.raw if rec0.raw is not None else rec0.value
                    rec0.value = _copy.deepcopy(orig)
                    _mutate_in_place(orig[0] if isinstance(orig, tuple) and len(orig) == 2 else orig)
            elif t == "recache":
                # the application re-orders / replaces FallbackClient's public `caches` list at run time
                orig = res.extra.setdefault("orig_caches", list(client.caches))
                new = [orig[j] for j in st["order"]]
                if st.get("how") == "inplace":
                    client.caches[:] = new
                else:
                    client.caches = new
            elif t == "cluster":
                world.nodes[st["node"]].cluster = st["cluster"]
                if isinstance(st["cluster"], dict):
                    # DNS follows the advertisement: each advertised name resolves to the advertised address
                    from .world import AF_INET
                    for name, addr, _port in st["cluster"].get("nodes", ()):
                        world.resolver[name] = [(AF_INET, addr)]
            elif t == "resolver":
                from .world import AF_INET, AF_INET6
                world.resolver[st["host"]] = [(AF_INET6 if f == "inet6" else AF_INET, ip)
                                              for f, ip in st["addrs"]]
            else:
                raise HarnessError("unknown step type %r" % t)
            if t != "call":
                for h in hooks:
                    f = getattr(h, "on_step", None)
                    if f is not None:
                        f(world, res, i, st)
    finally:
        _base.RECV_SIZE = DEFAULT_RECV_SIZE
        if knobs.get("log_debug"):
            _set_debug_logging(False)
    _finish(res, scn)
    return res


def _finish(res, scn):
    w = res.world
    h = hashlib.sha256()
    for ev in w.events:
        h.update(repr(ev).encode())
    for c in res.calls:
        h.update(codec.canon(c.enc_outcome()).encode())
    for o in w.obs:
        h.update(o["oracle"].encode())
        h.update(b"%d" % o["call"])
    for nid in sorted(w.nodes):
        n = w.nodes[nid]
        h.update(repr(sorted(n.snapshot().items())).encode())
        h.update(repr([(c[0], c[1], c[2]) for c in n.log]).encode())
    res.digest = h.hexdigest()
    _Cur.world = w


class ScriptedChild(ScriptedClient):
    """The same stub one class further down: every method the wrapper retries is an *inherited* one (as for a
    user's Client subclass, or AWSElastiCacheHashClient whose commands live on HashClient)."""


# ---------------------------------------------------------------- reachability
_SKIP_TYPES = (types.ModuleType, type, types.CodeType, types.BuiltinFunctionType,
               str, bytes, int, float, bool, type(None), SimNet, SimTLSContext, World)


def reachable_sockets(root):
    """SimSockets reachable from `root` by following ordinary object references,
    treating the simulator (net/world) as opaque."""
    seen = set()
    found = []
    clients = []
    stack = [root]
    mod_dicts = None
    while stack:
        o = stack.pop()
        i = id(o)
        if i in seen:
            continue
        seen.add(i)
        if isinstance(o, SimSocket):
            found.append(o)
            continue
        if isinstance(o, SimTLSSocket):
            stack.append(o._raw)
            continue
        if isinstance(o, _SKIP_TYPES):
            continue
        if isinstance(o, _base.Client):
            clients.append(o)
        if isinstance(o, types.FunctionType):
            if o.__closure__:
                for cell in o.__closure__:
                    try:
                        stack.append(cell.cell_contents)
                    except ValueError:
                        pass
            if o.__defaults__:
                stack.extend(o.__defaults__)
            continue
        if isinstance(o, types.MethodType):
            stack.append(o.__self__)
            stack.append(o.__func__)
            continue
        if isinstance(o, dict):
            if mod_dicts is None:
                mod_dicts = {id(m.__dict__) for m in list(sys.modules.values())
                             if hasattr(m, "__dict__")}
            if i in mod_dicts:
                continue
        for r in gc.get_referents(o):
            if id(r) not in seen:
                stack.append(r)
    return found, clients


def client_socket(c):
    """The open SimSocket a Client instance references (via its attributes), if any."""
    out = []
    for v in vars(c).values():
        if isinstance(v, SimTLSSocket):
            v = v._raw
        if isinstance(v, SimSocket) and not v.closed:
            out.append(v)
    return out

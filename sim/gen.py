"""Seeded workload / world / fault-plan generators shared by the property modules.
The only place (with the props' gen functions) where a PRNG is used.
"""
from .codec import enc

E = enc

READS = ("get", "gets", "get_many", "gets_many", "gat", "gats")
STORES = ("set", "add", "replace", "append", "prepend", "cas", "set_many")
MISC = ("delete", "delete_many", "incr", "decr", "touch", "flush_all")
ADMIN = ("version", "stats", "quit")

SEND_FAULTS = ("reset", "pipe", "timeout")
RECV_FAULTS = ("timeout", "reset", "eof")
CONNECT_FAULTS = ("refuse", "connect_timeout")
REPLY_FAULTS = ("errline", "garbage", "truncate", "partial-error", "foreign-value")

SEG_CHOICES = ([0], [1], [2], [3], [1, 0], [2, 0], [5, 0], [1, 1, 0], [7], [4096], [3, 1, 4], [6, 2, 0])
RECV_SIZES = (4096, 4096, 4096, 1, 2, 3, 7, 64)


def node_specs(n, unix=False, item_max=None):
    nodes = []
    servers = []
    for i in range(n):
        spec = {"id": i}
        if unix and i == n - 1:
            spec["path"] = "/tmp/memcached%d.sock" % i
            servers.append(E(spec["path"]))
        else:
            ip = "10.0.0.%d" % (i + 1)
            spec["addrs"] = [[ip, 11211]]
            servers.append(E((ip, 11211)))
        if item_max:
            spec["opts"] = {"item_max": item_max}
        nodes.append(spec)
    return nodes, servers


def pick_keys(rng, n=4, prefix_len=0):
    pool = [b"k1", b"k2", "s3", b"n4", "m5", b"key-six", b"\xc3\xa9k", b"z" * 40]
    rng.shuffle(pool)
    return pool[:n]


def pick_value(rng, numeric=False, big=None):
    if numeric:
        return rng.choice([b"0", b"7", b"41", b"1000", b"99", b"18446744073709551615"])
    r = rng.random()
    if big and r < 0.1:
        return bytes(rng.randrange(97, 123) for _ in range(8)) * (big // 8 + 1)
    if r < 0.3:
        return rng.choice([b"", b"x", b"a\r\nb", b"END\r\n", b"VALUE k 0 1\r\nx\r\nEND", b"STORED\r\n",
                           b"\r", b"\n", b"\r\n"])
    n = rng.choice([1, 2, 3, 5, 8, 13, 30])
    return bytes(rng.randrange(32, 127) for _ in range(n))


def gen_net(rng, p=0.6):
    if rng.random() > p:
        return None
    net = {"seg": list(rng.choice(SEG_CHOICES))}
    if rng.random() < 0.25:
        # piece indices preceded by an EINTR; a repeated index means several EINTRs in a row
        net["eintr"] = sorted(rng.choice(range(6)) for _ in range(rng.randint(1, 4)))
    return net


class Workload:
    """Generates call steps valid on Client, PooledClient and HashClient alike."""

    def __init__(self, rng, stack, keys, methods=None, big=None, noreply_mix=True,
                 numeric_keys=None, huge=True):
        self.rng = rng
        self.huge = huge
        self.stack = stack
        self.keys = keys
        self.big = big
        self.noreply_mix = noreply_mix
        self.numeric = set(numeric_keys or ())
        allm = list(READS + STORES + MISC + ADMIN)
        if stack in ("client", "pooled"):
            allm += ["raw_version", "raw_miss", "shutdown"]
        if stack == "hash":
            allm.remove("version")
        self.methods = [m for m in allm if methods is None or m in methods]

    def noreply(self, k):
        if not self.noreply_mix:
            return
        r = self.rng.random()
        if r < 0.31:
            k["noreply"] = True
        elif r < 0.62:
            k["noreply"] = False
        elif r < 0.72:
            k["noreply"] = None      # explicit None = "use the default"
        elif r < 0.76:
            k["noreply"] = self.rng.choice([1, 0])     # truthy / falsy, but not the bool singletons

    def key(self):
        return self.rng.choice(self.keys)

    def some_keys(self, lo=1, hi=4):
        n = self.rng.randint(lo, min(hi, len(self.keys)))
        return self.rng.sample(self.keys, n)

    def value(self, key=None):
        if self.huge and self.rng.random() < 0.01:
            # larger than memcached's default item limit (1 MiB): the server answers SERVER_ERROR object too large
            return bytes([self.rng.randrange(97, 123)]) * ((1 << 20) + self.rng.choice([1, 2, 4096]))
        return pick_value(self.rng, numeric=(key in self.numeric and self.rng.random() < 0.8),
                          big=self.big)

    def call(self, m=None):
        rng = self.rng
        m = m or rng.choice(self.methods)
        a, k = [], {}
        if m in ("set", "add", "replace", "append", "prepend"):
            key = self.key()
            a = [E(key), E(self.value(key))]
            if rng.random() < 0.3:
                k["expire"] = rng.choice([0, 100, 1000])
            if rng.random() < 0.2:
                k["flags"] = rng.choice([0, 1, 5, 65535])
            self.noreply(k)
        elif m == "set_many":
            keys = self.some_keys()
            d = {kk: self.value(kk) for kk in keys}
            if rng.random() < 0.15:
                # the same memcached key in its other spelling as well (str / bytes): two commands, two replies
                k0 = keys[0]
                try:
                    alt = k0.decode("ascii") if isinstance(k0, bytes) else k0.encode("ascii")
                    d[alt] = self.value(k0)
                except (UnicodeDecodeError, UnicodeEncodeError):
                    pass
            a = [E(d)]
            if rng.random() < 0.3:
                k["expire"] = rng.choice([0, 100])
            self.noreply(k)
        elif m == "cas":
            key = self.key()
            a = [E(key), E(self.value(key)), E(rng.choice([b"1001", 1002, "1003", b"2001", b"7"]))]
            if rng.random() < 0.3:
                k["noreply"] = rng.choice([True, False, None])
        elif m == "get":
            a = [E(self.key())]
            if rng.random() < 0.3:
                a.append(E(b"dflt"))
        elif m == "gets":
            a = [E(self.key())]
        elif m in ("gat", "gats"):
            a = [E(self.key())]
            if rng.random() < 0.6:
                k["expire"] = rng.choice([0, 100, 1000])
        elif m in ("get_many", "gets_many"):
            a = [E(self.some_keys(1, 4))]
        elif m == "delete":
            a = [E(self.key())]
            self.noreply(k)
        elif m == "delete_many":
            a = [E(self.some_keys(1, 3))]
            self.noreply(k)
        elif m in ("incr", "decr"):
            key = rng.choice(sorted(self.numeric, key=repr)) if self.numeric and rng.random() < 0.7 \
                else self.key()
            a = [E(key), rng.choice([1, 2, 10, 1000])]
            if rng.random() < 0.4:
                k["noreply"] = rng.choice([True, False, None])
        elif m == "touch":
            a = [E(self.key())]
            if rng.random() < 0.6:
                k["expire"] = rng.choice([0, 100, 1000])
            self.noreply(k)
        elif m == "flush_all":
            if rng.random() < 0.3:
                k["delay"] = rng.choice([0, 100])
            self.noreply(k)
        elif m == "raw_version":
            if rng.random() < 0.35:
                # raw commands whose text merely ENDS in the word noreply (a key of that name in a get, which has no
                # noreply form; a payload ending in it): they are ordinary commands and the server answers them
                raw = rng.choice([(b"get noreply", b"END\r\n"), (b"get never-stored-key noreply", b"END\r\n"),
                                  (b"set raw-only-key 0 0 9\r\nx noreply",)])
                return {"t": "call", "m": "raw_command", "a": [E(x) for x in raw], "k": {}}
            return {"t": "call", "m": "raw_command", "a": [E(b"version")], "k": {}}
        elif m == "raw_miss":
            # a raw command read up to a multi-byte end token (the reply is just that token: the key is never stored)
            return {"t": "call", "m": "raw_command", "a": [E(b"get never-stored-key"), E(b"END\r\n")], "k": {}}
        elif m == "shutdown":
            # the simulated servers run without --enable-shutdown: they answer with an error line
            if rng.random() < 0.3:
                k["graceful"] = rng.choice([True, False])
        elif m == "stats":
            r = rng.random()
            if r < 0.15:
                a = [E("settings")]
            elif r < 0.3:
                a = [E(rng.choice(["reset", b"reset"]))]        # answered by the single line RESET
            elif r < 0.4:
                a = [E("detail"), E(rng.choice(["on", "off"]))]
        elif m in ("version", "quit"):
            pass
        return {"t": "call", "m": m, "a": a, "k": k}


def applicable_faults(kind):
    if kind == "getaddrinfo":
        return [{"kind": "gaierror"}]
    if kind == "socket":
        return [{"kind": "nosock", "err": "eafnosupport"}, {"kind": "nosock", "err": "emfile"}]
    if kind == "setsockopt":
        return [{"kind": "optfail", "err": "einval"}, {"kind": "optfail", "err": "typeerror"}]
    if kind == "settimeout":
        return [{"kind": "optfail", "err": "einval"}, {"kind": "optfail", "err": "valueerror"}]
    if kind == "wrap":
        return [{"kind": "tlsfail", "err": "ssl"}]
    if kind == "connect":
        return [{"kind": "refuse"}, {"kind": "connect_timeout"}, {"kind": "refuse", "err": "unreach"},
                {"kind": "refuse", "err": "overflow"}]
    if kind == "sendall":
        out = []
        for k in SEND_FAULTS:
            out.append({"kind": k})
            out.append({"kind": k, "sent": 5})
        out.append({"kind": "eintr"})               # interrupted system call, nothing / part of it written
        out.append({"kind": "eintr", "sent": 5})
        return out
    if kind == "recv":
        return [{"kind": k} for k in RECV_FAULTS]
    if kind == "close":
        return [{"kind": "closefail"}]
    return []


def random_fault(rng, kinds=None):
    ek = rng.choice(kinds or ("connect", "sendall", "sendall", "recv", "recv", "recv", "reply", "reply"))
    if ek == "reply":
        f = {"at": ["reply", rng.choice([0, 0, 1, 2])], "kind": rng.choice(REPLY_FAULTS),
             "v": rng.randrange(9), "n": rng.randrange(40)}
        return f
    f = dict(rng.choice(applicable_faults(ek)))
    if "sent" in f:
        f["sent"] = rng.choice([1, 3, 9, 20])
    f["at"] = [ek, rng.choice([0, 0, 0, 1, 1, 2, 3])]
    return f


def sweep_variants(base, rec_by_step, steps_to_sweep, event_kinds, rng, max_per_event=3,
                   reply_faults=True, fault_filter=None):
    """One variant per (call, event, applicable fault kind); each keeps later calls."""
    import copy
    out = []
    for i in steps_to_sweep:
        rec = rec_by_step.get(i)
        if rec is None:
            continue
        for ek in event_kinds:
            cnt = rec.kinds.get(ek, 0)
            if not cnt:
                continue
            positions = list(range(cnt))
            if cnt > max_per_event:
                positions = sorted(set([0, cnt - 1] + rng.sample(range(cnt), max_per_event - 2)))
            for n in positions:
                for f in applicable_faults(ek):
                    if fault_filter and not fault_filter(ek, f):
                        continue
                    v = copy.deepcopy(base)
                    ff = dict(f)
                    ff["at"] = [ek, n]
                    if "sent" in ff:
                        ff["sent"] = rng.choice([1, 4, 11])
                    v["steps"][i].setdefault("faults", []).append(ff)
                    out.append(v)
        if reply_faults:
            nrep = sum(1 for c in rec.commands) if rec.commands else 0
            nrep = min(nrep, 4)
            for n in range(nrep):
                for kind in REPLY_FAULTS:
                    v = copy.deepcopy(base)
                    v["steps"][i].setdefault("faults", []).append(
                        {"at": ["reply", n], "kind": kind, "v": rng.randrange(9), "n": rng.randrange(60)})
                    out.append(v)
    return out

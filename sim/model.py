"""ApiModel: the documented contract of the Client API over a plain in-memory map
with expiry and cas versions.  Written from the docstrings / protocol.txt, not from
the client code.  Two uses:
  * lock-step (C05): own state, tokens opaque (remembered when issued);
  * snapshot (C01/C10/...): state loaded from the simulated node just before a call.
"""
THIRTY_DAYS = 60 * 60 * 24 * 30
U64 = (1 << 64) - 1

SKIP = ("skip",)


class _DecodeFailed(Exception):
    pass


class Cfg:
    def __init__(self, stack="client", key_prefix=b"", default_noreply=True, serde=None,
                 encoding="ascii", allow_unicode_keys=False, item_max=1 << 20, version=b"1.6.20",
                 refuse_set=()):
        self.stack = stack
        if isinstance(key_prefix, str):
            key_prefix = key_prefix.encode("ascii")
        self.prefix = key_prefix
        self.dn = default_noreply
        self.serde = serde
        self.encoding = encoding
        self.unicode = allow_unicode_keys
        self.item_max = item_max
        self.version = version
        self.refuse_set = frozenset(refuse_set)   # wire keys for which the server answers `set` with NOT_STORED


class ApiModel:
    def __init__(self, cfg, clock, items=None, snapshot_mode=False):
        self.cfg = cfg
        self.clock = clock
        self.items = {} if items is None else items   # wirekey -> [value, flags, exp, ver, mtime]
        self.snapshot_mode = snapshot_mode
        self.ver = 0
        self.tokmap = {}
        self.flush_at = None
        self.ambiguous = False

    # ---- helpers
    def now(self):
        return self.clock.now

    def wire(self, key):
        if isinstance(key, str):
            key = key.encode("utf8" if self.cfg.unicode else "ascii")
        return self.cfg.prefix + key

    def _exp(self, e):
        if e == 0:
            return None
        if e < 0:
            return -1.0
        if e > THIRTY_DAYS:
            return float(e) if e > self.now() else -1.0
        return self.now() + e

    def _due(self):
        fa = self.flush_at
        if fa is not None:
            if abs(self.now() - fa) < 1.5:
                self.ambiguous = True
            if self.now() >= fa:
                for k in [k for k, it in self.items.items() if it[4] < fa]:
                    del self.items[k]
                self.flush_at = None

    def look(self, wk):
        self._due()
        it = self.items.get(wk)
        if it is None:
            return None
        if it[2] is not None:
            if it[2] > 0 and abs(self.now() - it[2]) < 1.5:
                self.ambiguous = True
            if self.now() >= it[2]:
                del self.items[wk]
                self.expired_seen = getattr(self, "expired_seen", 0) + 1
                return None
        return it

    def _newver(self):
        self.ver += 1
        return self.ver

    def _put(self, wk, data, flags, exp):
        self.items[wk] = [data, flags, exp, self._newver(), self.now()]

    def encode_value(self, key, value, flags):
        """What the client is documented to put on the wire for `value`."""
        cfg = self.cfg
        if cfg.serde is not None:
            data, f = cfg.serde.serialize(self.wire(key), value)
        else:
            data, f = value, 0
        if flags is not None:
            f = flags
        if not isinstance(data, bytes):
            data = str(data).encode(cfg.encoding)
        return data, f

    def decode_value(self, key, data, flags):
        if self.cfg.serde is not None:
            try:
                return self.cfg.serde.deserialize(key, data, flags)
            except Exception as e:
                raise _DecodeFailed(type(e).__name__)
        return data

    def _nr(self, noreply, default=None):
        if noreply is None:
            return self.cfg.dn if default is None else default
        return noreply

    def issue_token(self, wk, token):
        """Lock-step mode: remember which version a token returned by gets refers to."""
        it = self.items.get(wk)
        if it is not None and token is not None:
            self.tokmap[bytes(token) if not isinstance(token, bytes) else token] = (wk, it[3])

    def _tok_ver(self, wk, token):
        if isinstance(token, int):
            token = b"%d" % token
        elif isinstance(token, str):
            token = token.encode()
        if self.snapshot_mode:
            return int(token)
        t = self.tokmap.get(token)
        if t is None or t[0] != wk:
            return -1
        return t[1]

    # ---- the API
    def apply(self, m, a, k):
        fn = getattr(self, "op_" + m, None)
        if fn is None:
            return SKIP
        try:
            return fn(*a, **k)
        except _DecodeFailed as e:
            # the configured deserializer rejects what the server holds: the call is documented to let that
            # exception through (or, with ignore_exc, to report a miss)
            return ("raise", e.args[0])

    def _store(self, verb, key, value, expire, noreply, flags, cas=None):
        wk = self.wire(key)
        data, f = self.encode_value(key, value, flags)
        it = self.look(wk)
        if len(data) > self.cfg.item_max:
            if verb == "set":
                self.items.pop(wk, None)
            return "too-large"
        exp = self._exp(expire)
        if verb == "set":
            if wk in self.cfg.refuse_set:
                return False
            self._put(wk, data, f, exp)
            return True
        if verb == "add":
            if it is None:
                self._put(wk, data, f, exp)
                return True
            return False
        if verb == "replace":
            if it is not None:
                self._put(wk, data, f, exp)
                return True
            return False
        if verb in ("append", "prepend"):
            if it is None:
                return False
            if len(it[0]) + len(data) > self.cfg.item_max:
                return "too-large"
            it[0] = it[0] + data if verb == "append" else data + it[0]
            it[3] = self._newver()
            it[4] = self.now()
            return True
        if verb == "cas":
            if it is None:
                return None
            if self._tok_ver(wk, cas) != it[3]:
                return False
            self._put(wk, data, f, exp)
            return True
        raise AssertionError(verb)

    def _store_api(self, verb, key, value, expire=0, noreply=None, flags=None):
        nr = self._nr(noreply)
        r = self._store(verb, key, value, expire, nr, flags)
        if nr:
            return ("return", True)
        if r == "too-large":
            return ("raise", "MemcacheServerError")
        return ("return", r)

    def op_set(self, key, value, expire=0, noreply=None, flags=None):
        return self._store_api("set", key, value, expire, noreply, flags)

    def op_add(self, key, value, expire=0, noreply=None, flags=None):
        return self._store_api("add", key, value, expire, noreply, flags)

    def op_replace(self, key, value, expire=0, noreply=None, flags=None):
        return self._store_api("replace", key, value, expire, noreply, flags)

    def op_append(self, key, value, expire=0, noreply=None, flags=None):
        return self._store_api("append", key, value, expire, noreply, flags)

    def op_prepend(self, key, value, expire=0, noreply=None, flags=None):
        return self._store_api("prepend", key, value, expire, noreply, flags)

    def op___setitem__(self, key, value):
        self._store("set", key, value, 0, True, None)
        return ("return", None)

    def op_set_many(self, values, expire=0, noreply=None, flags=None):
        nr = self._nr(noreply)
        failed = []
        err = False
        for key, value in values.items():
            r = self._store("set", key, value, expire, nr, flags)
            if r == "too-large":
                err = True
            elif not r:
                failed.append(key)
        if nr:
            return ("return", [])
        if err:
            return ("raise", "MemcacheServerError")
        return ("return", failed)

    op_set_multi = op_set_many

    def op_cas(self, key, value, cas, expire=0, noreply=False, flags=None):
        noreply = bool(noreply)
        r = self._store("cas", key, value, expire, noreply, flags, cas=cas)
        if noreply:
            return ("return", True)
        if r == "too-large":
            return ("raise", "MemcacheServerError")
        return ("return", r)

    def _fetch(self, keys, with_cas, expire=None):
        out = {}
        for key in keys:
            wk = self.wire(key)
            it = self.look(wk)
            if it is None:
                continue
            if expire is not None:
                it[2] = self._exp(expire)
            v = self.decode_value(key, it[0], it[1])
            out[key] = (v, ("tok", wk, it[3])) if with_cas else v
        return out

    def op_get(self, key, default=None):
        return ("return", self._fetch([key], False).get(key, default))

    def op___getitem__(self, key):
        v = self._fetch([key], False).get(key)
        if v is None:
            return ("raise", "KeyError")
        return ("return", v)

    def op_gets(self, key, default=None, cas_default=None):
        return ("return", self._fetch([key], True).get(key, (default, cas_default)))

    def op_gat(self, key, expire=0, default=None):
        return ("return", self._fetch([key], False, expire).get(key, default))

    def op_gats(self, key, expire=0, default=None, cas_default=None):
        return ("return", self._fetch([key], True, expire).get(key, (default, cas_default)))

    def op_get_many(self, keys):
        return ("return", self._fetch(list(keys), False))

    op_get_multi = op_get_many

    def op_gets_many(self, keys):
        return ("return", self._fetch(list(keys), True))

    def op_delete(self, key, noreply=None):
        nr = self._nr(noreply)
        wk = self.wire(key)
        found = self.look(wk) is not None
        self.items.pop(wk, None)
        return ("return", True if nr else found)

    def op___delitem__(self, key):
        self.items.pop(self.wire(key), None)
        return ("return", None)

    def op_delete_many(self, keys, noreply=None):
        for key in keys:
            wk = self.wire(key)
            self.look(wk)
            self.items.pop(wk, None)
        return ("return", True)

    op_delete_multi = op_delete_many

    def _arith(self, sign, key, value, noreply=False):
        noreply = bool(noreply)      # an explicit None is falsy: the reply is awaited
        wk = self.wire(key)
        it = self.look(wk)
        if it is None:
            return ("return", None)
        old = it[0]
        sv = old.strip(b" ")
        if not old or len(old) > 24 or not sv.isdigit() or int(sv) > U64:
            return ("return", None) if noreply else ("raise", "MemcacheClientError")
        cur = int(sv)
        new = (cur + value) & U64 if sign > 0 else (cur - value if value < cur else 0)
        txt = b"%d" % new
        it[0] = txt + b" " * (len(old) - len(txt)) if len(txt) <= len(old) else txt
        it[3] = self._newver()
        return ("return", None if noreply else new)

    def op_incr(self, key, value, noreply=False):
        return self._arith(1, key, value, noreply)

    def op_decr(self, key, value, noreply=False):
        return self._arith(-1, key, value, noreply)

    def op_touch(self, key, expire=0, noreply=None):
        nr = self._nr(noreply)
        it = self.look(self.wire(key))
        if it is not None:
            it[2] = self._exp(expire)
        return ("return", True if nr else it is not None)

    def op_flush_all(self, delay=0, noreply=None):
        self._due()
        if delay <= 0:
            self.items.clear()
            self.flush_at = None
        elif delay > THIRTY_DAYS:
            if delay <= self.now():
                self.items.clear()
                self.flush_at = None
            else:
                self.flush_at = float(delay)
        else:
            self.flush_at = self.now() + delay
        if self.cfg.stack == "hash":
            return ("return", None)
        return ("return", True)

    def op_version(self):
        return ("return", self.cfg.version)

    def op_cache_memlimit(self, memlimit):
        if memlimit < 8:
            return ("raise", "MemcacheClientError")
        return ("return", True)

    def op_quit(self):
        return ("return", None)

    def op_shutdown(self, graceful=False):
        # servers in the simulation are started without --enable-shutdown
        return ("raise", "MemcacheUnknownCommandError")

    def visible(self):
        self._due()
        now = self.now()
        return {k: (it[0], it[1], it[2]) for k, it in self.items.items()
                if it[2] is None or now < it[2]}


def results_equal(expected, actual, tok_check=None):
    """Compare a model value with a client value; ("tok", wk, ver) placeholders in the
    model value are matched by tok_check(wk, ver, actual_token)."""
    if isinstance(expected, tuple) and len(expected) == 3 and expected[0] == "tok":
        return tok_check(expected[1], expected[2], actual) if tok_check else actual is not None
    if type(expected) is not type(actual):
        return False
    if isinstance(expected, dict):
        if len(expected) != len(actual):
            return False
        for k, v in expected.items():
            hit = [ak for ak in actual if ak == k and type(ak) is type(k)]
            if not hit or not results_equal(v, actual[hit[0]], tok_check):
                return False
        return True
    if isinstance(expected, (tuple, list)):
        return len(expected) == len(actual) and all(
            results_equal(e, a, tok_check) for e, a in zip(expected, actual))
    return expected == actual

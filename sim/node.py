"""SimNode: an executable reference memcached (text protocol), used as the faithful
peer, the strict request parser, and the tagger of reply ownership.

Behaviour follows memcached 1.6 / doc/protocol.txt for everything the client under
test can depend on; see DESIGN.md section 2.4 for what is deliberately not modelled.
"""
from collections import deque

from . import codec

STORE_VERBS = (b"set", b"add", b"replace", b"append", b"prepend", b"cas")
THIRTY_DAYS = 60 * 60 * 24 * 30
_DIGITS = frozenset(b"0123456789")


class Item:
    __slots__ = ("value", "flags", "exp", "cas", "mtime")

    def __init__(self, value, flags, exp, cas, mtime):
        self.value, self.flags, self.exp, self.cas, self.mtime = value, flags, exp, cas, mtime

    def tup(self):
        return (self.value, self.flags, self.exp, self.cas)


class Conn:
    __slots__ = ("node", "sock", "inbuf", "owners", "out", "peer_closed", "broken",
                 "pending", "id", "fault_calls")

    def __init__(self, node, sock):
        self.node, self.sock = node, sock
        self.inbuf = bytearray()
        self.owners = deque()      # [owner_call, nbytes] for bytes in inbuf
        self.out = deque()         # [bytes, owner_call]
        self.peer_closed = False   # node closed its end
        self.broken = False        # connection reset
        self.pending = None        # storage command waiting for its data block
        self.id = sock.id
        self.fault_calls = set()   # call ids during which a fault touched this conn

    def out_bytes(self):
        return sum(len(s[0]) for s in self.out)


def _is_uint(tok):
    return len(tok) > 0 and all(c in _DIGITS for c in tok)


def _is_int(tok):
    return _is_uint(tok[1:] if tok[:1] == b"-" else tok)


def _to_int(tok):
    # what strtol-style parsing in memcached accepts: optional sign + digits
    try:
        if not _is_int(tok):
            return None
        return int(tok)
    except ValueError:
        return None


class SimNode:
    def __init__(self, world, nid, opts=None):
        opts = opts or {}
        self.world = world
        self.id = nid
        self.store = {}
        self.cas_counter = 1000 * (nid + 1)
        self.flush_at = None
        self.item_max = opts.get("item_max", 1 << 20)
        # keys for which `set` is answered NOT_STORED and nothing is stored ("the data was not stored, but not
        # because of an error" - protocol.txt; what a proxy or a read-only replica in front of memcached does)
        self.refuse_set = frozenset(codec.dec(k) for k in opts.get("refuse_set", ()))
        self.shutdown_enabled = opts.get("shutdown", False)
        self.version = opts.get("version", "1.6.%d" % (20 + nid)).encode()
        self.health = "up"           # or a down-kind string
        self.cluster = opts.get("cluster")  # {"version": n, "nodes": [[fqdn, ip, port], ...]} or "error"
        self.log = []                # (call_id, verb, key, detail-tuple)
        self.ncmds = 0
        self.conns = []

    # ---- store semantics -------------------------------------------------
    def now(self):
        return self.world.clock.now

    def _exp(self, exptime):
        if exptime == 0:
            return None
        if exptime < 0:
            return -1.0
        if exptime > THIRTY_DAYS:
            return float(exptime) if exptime > self.now() else -1.0
        return self.now() + exptime

    def _flush_due(self):
        fa = self.flush_at
        if fa is not None and self.now() >= fa:
            for k in [k for k, it in self.store.items() if it.mtime < fa]:
                del self.store[k]
            self.flush_at = None

    def lookup(self, key):
        self._flush_due()
        it = self.store.get(key)
        if it is None:
            return None
        if it.exp is not None and self.now() >= it.exp:
            del self.store[key]
            return None
        return it

    def next_cas(self):
        self.cas_counter += 1
        return self.cas_counter

    def put(self, key, value, flags, exp):
        self.store[key] = Item(value, flags, exp, self.next_cas(), self.now())

    def snapshot(self):
        """Visible items: key -> (value, flags, exp, cas)."""
        self._flush_due()
        now = self.now()
        return {k: it.tup() for k, it in self.store.items()
                if it.exp is None or now < it.exp}

    def direct_set(self, key, value, flags=0, exptime=0):
        """Peer-side change behind the client's back."""
        self._flush_due()
        self.put(key, value, flags, self._exp(exptime))

    def direct_delete(self, key):
        self.store.pop(key, None)

    # ---- connection handling ---------------------------------------------
    def accept(self, sock):
        c = Conn(self, sock)
        self.conns.append(c)
        return c

    def feed(self, conn, data, owner):
        if not data:
            return            # an empty send carries no byte: it owns nothing of what follows
        conn.inbuf += data
        conn.owners.append([owner, len(data)])
        while not conn.peer_closed:
            p = conn.pending
            if p is not None:
                need = p[5] + 2
                if len(conn.inbuf) < need:
                    return
                block = bytes(conn.inbuf[:need])
                owners = self._consume(conn, need)
                conn.pending = None
                self._finish_store(conn, p, block, owners)
                continue
            i = conn.inbuf.find(b"\n")
            if i < 0:
                return
            line = bytes(conn.inbuf[: i + 1])
            owners = self._consume(conn, i + 1)
            self._command(conn, line, owners)

    def _consume(self, conn, n):
        del conn.inbuf[:n]
        owners = []
        q = conn.owners
        while n > 0:
            seg = q[0]
            if seg[0] not in owners:
                owners.append(seg[0])
            if seg[1] <= n:
                n -= seg[1]
                q.popleft()
            else:
                seg[1] -= n
                n = 0
        return owners

    def _malformed(self, owner, why, line):
        self.world.observe("malformed-request", call=owner, node=self.id, why=why,
                           line=line[:80])

    def _reply(self, conn, owner, data, noreply=False):
        if noreply:
            return
        data = self.world.reply_hook(conn, owner, data)
        if data:
            conn.out.append([data, owner])

    def _record(self, owner, verb, key, detail):
        self.ncmds += 1
        self.log.append((owner, verb, key, detail))
        self.world.command_seen(self, owner, verb, key, detail)

    # ---- command parsing ---------------------------------------------------
    def _command(self, conn, line, owners):
        owner = owners[0]
        if len(owners) > 1:
            self.world.observe("command-spans-calls", call=owners[-1], node=self.id,
                               owners=list(owners), line=line[:80])
        strict_ok = True
        if line.endswith(b"\r\n"):
            body = line[:-2]
        else:
            body = line[:-1]
            strict_ok = False
            self._malformed(owner, "bare-LF", line)
        raw = body.split(b" ")
        toks = [t for t in raw if t]
        if len(toks) != len(raw) and strict_ok:
            strict_ok = False
            self._malformed(owner, "extra-space", line)
        if strict_ok and any(c in b"\t\r\n\x0b\x0c\x00" for c in body):
            strict_ok = False
            self._malformed(owner, "control-char", line)

        if self.health == "errline":
            self._record(owner, b"?", None, (body[:40],))
            if toks and toks[0] in STORE_VERBS and len(toks) >= 5:
                n = _to_int(toks[4])
                if n is not None and n >= 0:
                    conn.pending = (b"!swallow", None, 0, 0, None, n, toks[-1] == b"noreply", owner)
                    return
            self._reply(conn, owner, b"SERVER_ERROR out of memory\r\n")
            return

        if not toks:
            self._record(owner, b"", None, ())
            self._reply(conn, owner, b"ERROR\r\n")
            return
        verb = toks[0]

        if verb in STORE_VERBS:
            return self._store_line(conn, owner, verb, toks, line)

        noreply = False
        if verb in (b"get", b"gets", b"gat", b"gats"):
            return self._get(conn, owner, verb, toks, line)

        if verb in (b"delete", b"incr", b"decr", b"touch", b"flush_all", b"verbosity",
                    b"cache_memlimit") and len(toks) > 1 and toks[-1] == b"noreply":
            noreply = True
            toks = toks[:-1]

        if verb == b"delete":
            if len(toks) == 3 and toks[2] == b"0":
                toks = toks[:2]
            if len(toks) != 2 or len(toks[1]) > 250:
                self._record(owner, verb, None, (body[:40],))
                self._malformed(owner, "bad-delete", line)
                return self._reply(conn, owner, b"CLIENT_ERROR bad command line format.  "
                                   b"Usage: delete <key> [noreply]\r\n")
            key = toks[1]
            self._record(owner, verb, key, (noreply,))
            if self.lookup(key) is not None:
                del self.store[key]
                return self._reply(conn, owner, b"DELETED\r\n", noreply)
            return self._reply(conn, owner, b"NOT_FOUND\r\n", noreply)

        if verb in (b"incr", b"decr"):
            if len(toks) != 3 or len(toks[1]) > 250:
                self._record(owner, verb, None, (body[:40],))
                self._malformed(owner, "bad-arith", line)
                return self._reply(conn, owner, b"ERROR\r\n")
            key = toks[1]
            if not _is_uint(toks[2]) or int(toks[2]) >= 1 << 64:
                self._record(owner, verb, key, (toks[2], noreply))
                self._malformed(owner, "bad-delta", line)
                return self._reply(conn, owner, b"CLIENT_ERROR invalid numeric delta argument\r\n", noreply)
            delta = int(toks[2])
            self._record(owner, verb, key, (delta, noreply))
            it = self.lookup(key)
            if it is None:
                return self._reply(conn, owner, b"NOT_FOUND\r\n", noreply)
            old = it.value
            sv = old.strip(b" ")
            if not old or len(old) > 24 or not _is_uint(sv) or int(sv) >= 1 << 64:
                return self._reply(conn, owner, b"CLIENT_ERROR cannot increment or decrement "
                                   b"non-numeric value\r\n", noreply)
            cur = int(sv)
            if verb == b"incr":
                new = (cur + delta) & ((1 << 64) - 1)
            else:
                new = cur - delta if delta < cur else 0
            txt = b"%d" % new
            if len(txt) <= len(old):
                it.value = txt + b" " * (len(old) - len(txt))
            else:
                it.value = txt
            it.cas = self.next_cas()
            return self._reply(conn, owner, txt + b"\r\n", noreply)

        if verb == b"touch":
            if len(toks) != 3 or len(toks[1]) > 250 or _to_int(toks[2]) is None:
                self._record(owner, verb, None, (body[:40],))
                self._malformed(owner, "bad-touch", line)
                return self._reply(conn, owner, b"CLIENT_ERROR invalid exptime argument\r\n")
            key = toks[1]
            exptime = _to_int(toks[2])
            self._record(owner, verb, key, (exptime, noreply))
            it = self.lookup(key)
            if it is None:
                return self._reply(conn, owner, b"NOT_FOUND\r\n", noreply)
            it.exp = self._exp(exptime)
            return self._reply(conn, owner, b"TOUCHED\r\n", noreply)

        if verb == b"flush_all":
            delay = 0
            if len(toks) > 2 or (len(toks) == 2 and _to_int(toks[1]) is None):
                self._record(owner, verb, None, (body[:40],))
                self._malformed(owner, "bad-flush", line)
                return self._reply(conn, owner, b"CLIENT_ERROR bad command line format\r\n")
            if len(toks) == 2:
                delay = _to_int(toks[1])
            self._record(owner, verb, None, (delay, noreply))
            self._flush_due()
            if delay <= 0:
                self.store.clear()
                self.flush_at = None
            elif delay > THIRTY_DAYS:
                if delay <= self.now():
                    self.store.clear()
                    self.flush_at = None
                else:
                    self.flush_at = float(delay)
            else:
                self.flush_at = self.now() + delay
            return self._reply(conn, owner, b"OK\r\n", noreply)

        if verb == b"version" and len(toks) == 1:
            self._record(owner, verb, None, ())
            return self._reply(conn, owner, b"VERSION " + self.version + b"\r\n")

        if verb == b"verbosity":
            self._record(owner, verb, None, (noreply,))
            return self._reply(conn, owner, b"OK\r\n", noreply)

        if verb == b"cache_memlimit":
            self._record(owner, verb, None, (toks[1] if len(toks) > 1 else None, noreply))
            if len(toks) != 2 or not _is_uint(toks[1]):
                self._malformed(owner, "bad-memlimit", line)
                return self._reply(conn, owner, b"ERROR\r\n")
            if int(toks[1]) < 8:
                return self._reply(conn, owner, b"CLIENT_ERROR cannot set maxbytes to less than 8m\r\n", noreply)
            return self._reply(conn, owner, b"OK\r\n", noreply)

        if verb == b"stats":
            self._record(owner, verb, None, tuple(toks[1:]))
            return self._reply(conn, owner, self._stats(toks[1:]))

        if verb == b"quit" and len(toks) == 1:
            self._record(owner, verb, None, ())
            conn.peer_closed = True
            return

        if verb == b"shutdown":
            self._record(owner, verb, None, tuple(toks[1:]))
            if not self.shutdown_enabled:
                return self._reply(conn, owner, b"ERROR: shutdown not enabled\r\n")
            conn.peer_closed = True
            return

        if verb == b"config" and toks[1:] == [b"get", b"cluster"]:
            self._record(owner, verb, None, ())
            cl = self.cluster
            if not isinstance(cl, dict):
                return self._reply(conn, owner, b"ERROR\r\n")
            nodes = " ".join("%s|%s|%s" % tuple(n) for n in cl["nodes"])
            payload = ("%d\n%s\n" % (cl["version"], nodes)).encode()
            return self._reply(conn, owner, b"CONFIG cluster 0 %d\r\n%s\r\nEND\r\n"
                               % (len(payload), payload))

        self._record(owner, verb[:20], None, (body[:40],))
        self._malformed(owner, "unknown-command", line)
        return self._reply(conn, owner, b"ERROR\r\n")

    def _get(self, conn, owner, verb, toks, line):
        args = toks[1:]
        exptime = None
        if verb in (b"gat", b"gats"):
            if len(args) < 2 or _to_int(args[0]) is None:
                self._record(owner, verb, None, (line[:40],))
                self._malformed(owner, "bad-gat", line)
                return self._reply(conn, owner, b"CLIENT_ERROR invalid exptime argument\r\n"
                                   if len(args) >= 1 else b"ERROR\r\n")
            exptime = _to_int(args[0])
            args = args[1:]
        if not args:
            self._record(owner, verb, None, ())
            self._malformed(owner, "get-without-key", line)
            return self._reply(conn, owner, b"ERROR\r\n")
        out = []
        with_cas = verb in (b"gets", b"gats")
        for key in args:
            if len(key) > 250:
                self._record(owner, verb, key[:20], ("too-long",))
                self._malformed(owner, "key-too-long", line)
                return self._reply(conn, owner, b"CLIENT_ERROR bad command line format\r\n")
            self._record(owner, verb, key, (exptime,))
            it = self.lookup(key)
            if it is None:
                continue
            if exptime is not None:
                it.exp = self._exp(exptime)
            if with_cas:
                out.append(b"VALUE %s %d %d %d\r\n" % (key, it.flags, len(it.value), it.cas))
            else:
                out.append(b"VALUE %s %d %d\r\n" % (key, it.flags, len(it.value)))
            out.append(it.value)
            out.append(b"\r\n")
        out.append(b"END\r\n")
        return self._reply(conn, owner, b"".join(out))

    def _store_line(self, conn, owner, verb, toks, line):
        n = 6 if verb == b"cas" else 5
        noreply = False
        bad = None
        if len(toks) == n + 1:
            if toks[n] == b"noreply":
                noreply = True
            else:
                self._malformed(owner, "bad-noreply-token", line)
        elif len(toks) != n:
            bad = "token-count"
        if bad is None:
            key = toks[1]
            flags, exptime, nbytes = _to_int(toks[2]), _to_int(toks[3]), _to_int(toks[4])
            casv = None
            if verb == b"cas":
                casv = int(toks[5]) if _is_uint(toks[5]) and int(toks[5]) < 1 << 64 else None
                if casv is None:
                    bad = "cas-value"
            if len(key) > 250:
                bad = "key-too-long"
            elif flags is None or not (0 <= flags < 1 << 32) or toks[2][:1] == b"-":
                bad = "flags"
            elif exptime is None or nbytes is None:
                bad = "number"
        if bad is not None:
            self._record(owner, verb, None, (bad, line[:40]))
            self._malformed(owner, "bad-store-line:" + bad, line)
            if bad == "token-count" and len(toks) < n:
                return self._reply(conn, owner, b"ERROR\r\n")
            return self._reply(conn, owner, b"CLIENT_ERROR bad command line format\r\n")
        if nbytes < 0:
            self._record(owner, verb, key, ("negative-length",))
            self._malformed(owner, "negative-length", line)
            return self._reply(conn, owner, b"CLIENT_ERROR bad data chunk\r\n", noreply)
        conn.pending = (verb, key, flags, exptime, casv, nbytes, noreply, owner)

    def _finish_store(self, conn, p, block, owners):
        verb, key, flags, exptime, casv, nbytes, noreply, owner = p
        if owners and (len(owners) > 1 or owners[0] != owner):
            self.world.observe("command-spans-calls", call=owners[-1], node=self.id,
                               owners=[owner] + list(owners), line=verb + b" " + (key or b""))
        if verb == b"!swallow":
            return self._reply(conn, owner, b"SERVER_ERROR out of memory\r\n", noreply)
        data = block[:-2]
        if block[-2:] != b"\r\n":
            self._record(owner, verb, key, ("bad-data-chunk",))
            self._malformed(owner, "bad-data-chunk", block[:60])
            return self._reply(conn, owner, b"CLIENT_ERROR bad data chunk\r\n", noreply)
        self._record(owner, verb, key, (flags, exptime, nbytes, casv, noreply, data))
        if nbytes > self.item_max:
            if verb == b"set":
                self.lookup(key)
                self.store.pop(key, None)
            return self._reply(conn, owner, b"SERVER_ERROR object too large for cache\r\n", noreply)
        it = self.lookup(key)
        exp = self._exp(exptime)
        if verb == b"set":
            if key in self.refuse_set:
                r = b"NOT_STORED"
            else:
                self.put(key, data, flags, exp)
                r = b"STORED"
        elif verb == b"add":
            if it is None:
                self.put(key, data, flags, exp)
                r = b"STORED"
            else:
                r = b"NOT_STORED"
        elif verb == b"replace":
            if it is not None:
                self.put(key, data, flags, exp)
                r = b"STORED"
            else:
                r = b"NOT_STORED"
        elif verb in (b"append", b"prepend"):
            if it is None:
                r = b"NOT_STORED"
            elif len(it.value) + len(data) > self.item_max:
                r = b"SERVER_ERROR object too large for cache"
            else:
                it.value = it.value + data if verb == b"append" else data + it.value
                it.cas = self.next_cas()
                it.mtime = self.now()
                r = b"STORED"
        else:  # cas
            if it is None:
                r = b"NOT_FOUND"
            elif it.cas != casv:
                r = b"EXISTS"
            else:
                self.put(key, data, flags, exp)
                r = b"STORED"
        return self._reply(conn, owner, r + b"\r\n", noreply)

    def _stats(self, args):
        if not args:
            lines = [
                (b"pid", b"%d" % (4000 + self.id)), (b"uptime", b"%d" % int(self.now() % 100000)),
                (b"version", self.version), (b"rusage_user", b"0.%06d" % (self.ncmds % 1000000)),
                (b"curr_items", b"%d" % len(self.store)), (b"cmd_total", b"%d" % self.ncmds),
                (b"hash_is_expanding", b"0"), (b"libevent", b"2.1.12-stable"),
            ]
        elif args[0] == b"settings":
            lines = [(b"maxbytes", b"67108864"), (b"inter", b"NULL"), (b"growth_factor", b"1.25"),
                     (b"stat_key_prefix", b":"), (b"umask", b"700"), (b"cas_enabled", b"yes"),
                     (b"auth_enabled_sasl", b"no"), (b"domain_socket", b"")]
        elif args[0] == b"cachedump":
            out = []
            for k in sorted(self.store):
                it = self.lookup(k)
                if it is not None:
                    out.append(b"ITEM %s [%d b; %d s]\r\n" % (k, len(it.value), 0))
            return b"".join(out) + b"END\r\n"
        elif args[0] == b"reset":
            return b"RESET\r\n"             # a one-line answer: no END follows
        elif args[0] == b"detail" and args[1:] in ([b"on"], [b"off"]):
            return b"OK\r\n"
        elif args[0] in (b"items", b"slabs", b"sizes", b"conns"):
            lines = [(b"items:1:number", b"%d" % len(self.store))] if args[0] == b"items" and self.store else []
        else:
            return b"ERROR\r\n"
        return b"".join(b"STAT %s %s\r\n" % kv for kv in lines) + b"END\r\n"

"""Golden-transcript self-test of the reference node (run by setup.sh).
Each transcript is a list of (bytes sent, bytes expected back) on one connection,
with optional clock advances; transcripts follow memcached's doc/protocol.txt."""
import sys

from .world import World


class _Sock:
    id = 0
    conn = None


def run(transcript, opts=None):
    w = World({"nodes": [{"id": 0, "addrs": [["h", 1]], "opts": opts or {}}]})
    node = w.nodes[0]
    sock = _Sock()
    conn = node.accept(sock)
    sock.conn = conn
    errs = []
    for i, step in enumerate(transcript):
        if isinstance(step, (int, float)):
            w.clock.advance(step)
            continue
        send, want = step
        ctx = w.begin_call(i, "t")
        node.feed(conn, send, ctx.id)
        w.end_call(ctx)
        got = b"".join(s[0] for s in conn.out)
        conn.out.clear()
        if got != want:
            errs.append("step %d: sent %r\n   want %r\n   got  %r" % (i, send, want, got))
    return errs, w


T = [
 ("store/get", [
  (b"set a 5 0 3\r\nabc\r\n", b"STORED\r\n"),
  (b"get a\r\n", b"VALUE a 5 3\r\nabc\r\nEND\r\n"),
  (b"gets a\r\n", b"VALUE a 5 3 1001\r\nabc\r\nEND\r\n"),
  (b"add a 0 0 1\r\nx\r\n", b"NOT_STORED\r\n"),
  (b"add b 0 0 1\r\nx\r\n", b"STORED\r\n"),
  (b"replace c 0 0 1\r\nx\r\n", b"NOT_STORED\r\n"),
  (b"replace b 1 0 2\r\nyy\r\n", b"STORED\r\n"),
  (b"append b 9 9 1\r\nz\r\n", b"STORED\r\n"),
  (b"prepend b 9 9 1\r\nw\r\n", b"STORED\r\n"),
  (b"get b a nope\r\n", b"VALUE b 1 4\r\nwyyz\r\nVALUE a 5 3\r\nabc\r\nEND\r\n"),
  (b"append nope 0 0 1\r\nz\r\n", b"NOT_STORED\r\n"),
  (b"set n 0 0 1 noreply\r\n1\r\n", b""),
  (b"get n\r\n", b"VALUE n 0 1\r\n1\r\nEND\r\n"),
  (b"set e 0 0 0\r\n\r\n", b"STORED\r\n"),
  (b"get e\r\n", b"VALUE e 0 0\r\n\r\nEND\r\n"),
  (b"set v 0 0 9\r\nab\r\nEND\r\n\r\n", b"STORED\r\n"),
  (b"get v\r\n", b"VALUE v 0 9\r\nab\r\nEND\r\n\r\nEND\r\n"),
 ]),
 ("cas", [
  (b"set a 0 0 1\r\n1\r\n", b"STORED\r\n"),
  (b"gets a\r\n", b"VALUE a 0 1 1001\r\n1\r\nEND\r\n"),
  (b"cas a 0 0 1 999\r\n2\r\n", b"EXISTS\r\n"),
  (b"cas zz 0 0 1 999\r\n2\r\n", b"NOT_FOUND\r\n"),
  (b"cas a 0 0 1 1001\r\n2\r\n", b"STORED\r\n"),
  (b"cas a 0 0 1 1001\r\n3\r\n", b"EXISTS\r\n"),
  (b"gets a\r\n", b"VALUE a 0 1 1002\r\n2\r\nEND\r\n"),
  (b"cas a 0 0 1 1002 noreply\r\n4\r\n", b""),
  (b"get a\r\n", b"VALUE a 0 1\r\n4\r\nEND\r\n"),
 ]),
 ("delete/incr/decr/touch", [
  (b"delete a\r\n", b"NOT_FOUND\r\n"),
  (b"set a 0 0 2\r\n10\r\n", b"STORED\r\n"),
  (b"incr a 5\r\n", b"15\r\n"),
  (b"decr a 9\r\n", b"6\r\n"),
  (b"get a\r\n", b"VALUE a 0 2\r\n6 \r\nEND\r\n"),
  (b"incr a 1\r\n", b"7\r\n"),
  (b"decr a 100\r\n", b"0\r\n"),
  (b"incr a 18446744073709551615\r\n", b"18446744073709551615\r\n"),
  (b"incr a 1\r\n", b"0\r\n"),
  (b"incr nope 1\r\n", b"NOT_FOUND\r\n"),
  (b"set s 0 0 3\r\nabc\r\n", b"STORED\r\n"),
  (b"incr s 1\r\n", b"CLIENT_ERROR cannot increment or decrement non-numeric value\r\n"),
  (b"incr a x\r\n", b"CLIENT_ERROR invalid numeric delta argument\r\n"),
  (b"incr a 1 noreply\r\n", b""),
  (b"touch a 100\r\n", b"TOUCHED\r\n"),
  (b"touch nope 100\r\n", b"NOT_FOUND\r\n"),
  (b"delete a\r\n", b"DELETED\r\n"),
  (b"delete a noreply\r\n", b""),
  (b"get a\r\n", b"END\r\n"),
 ]),
 ("expiry", [
  (b"set a 0 10 1\r\n1\r\n", b"STORED\r\n"),
  (b"set b 0 -1 1\r\n1\r\n", b"STORED\r\n"),
  (b"set c 0 1700000100 1\r\n1\r\n", b"STORED\r\n"),
  (b"set d 0 1600000000 1\r\n1\r\n", b"STORED\r\n"),
  (b"get a b c d\r\n", b"VALUE a 0 1\r\n1\r\nVALUE c 0 1\r\n1\r\nEND\r\n"),
  5,
  (b"gat 100 a\r\n", b"VALUE a 0 1\r\n1\r\nEND\r\n"),
  20,
  (b"get a c\r\n", b"VALUE a 0 1\r\n1\r\nVALUE c 0 1\r\n1\r\nEND\r\n"),
  100,
  (b"gats 0 a c\r\n", b"END\r\n"),
 ]),
 ("flush", [
  (b"set a 0 0 1\r\n1\r\n", b"STORED\r\n"),
  (b"flush_all\r\n", b"OK\r\n"),
  (b"get a\r\n", b"END\r\n"),
  (b"set a 0 0 1\r\n1\r\n", b"STORED\r\n"),
  (b"flush_all 10\r\n", b"OK\r\n"),
  5,
  (b"set b 0 0 1\r\n1\r\n", b"STORED\r\n"),
  (b"get a b\r\n", b"VALUE a 0 1\r\n1\r\nVALUE b 0 1\r\n1\r\nEND\r\n"),
  10,
  (b"set c 0 0 1\r\n1\r\n", b"STORED\r\n"),
  (b"get a b c\r\n", b"VALUE c 0 1\r\n1\r\nEND\r\n"),
  (b"flush_all 0 noreply\r\n", b""),
  (b"get c\r\n", b"END\r\n"),
 ]),
 ("errors and misc", [
  (b"bogus\r\n", b"ERROR\r\n"),
  (b"get\r\n", b"ERROR\r\n"),
  (b"version\r\n", b"VERSION 1.6.20\r\n"),
  (b"verbosity 1\r\n", b"OK\r\n"),
  (b"cache_memlimit 100\r\n", b"OK\r\n"),
  (b"set k 0 0 2\r\nabcd\r\n", b"CLIENT_ERROR bad data chunk\r\nERROR\r\n"),
  (b"set k abc 0 2\r\n", b"CLIENT_ERROR bad command line format\r\n"),
  (b"set " + b"k" * 251 + b" 0 0 1\r\n", b"CLIENT_ERROR bad command line format\r\n"),
  (b"shutdown\r\n", b"ERROR: shutdown not enabled\r\n"),
  (b"set  0 0 5\r\n", b"ERROR\r\n"),
  (b"set a 0 0 1\r\n", b""),
  (b"1\r\nget a\r\n", b"STORED\r\nVALUE a 0 1\r\n1\r\nEND\r\n"),
  (b"stats cachedump 1 10\r\n", b"ITEM a [1 b; 0 s]\r\nEND\r\n"),
 ]),
]


def main():
    bad = 0
    for name, tr in T:
        errs, w = run(tr)
        for e in errs:
            bad += 1
            print("nodetest %s: %s" % (name, e))
    errs, w = run([(b"set a 0 0 100\r\n" + b"x" * 100 + b"\r\n", b"SERVER_ERROR object too large for cache\r\n"),
                   (b"get a\r\n", b"END\r\n")], {"item_max": 64})
    bad += len(errs)
    for e in errs:
        print("nodetest too-large:", e)
    # strictness observations
    errs, w = run([(b"get a\n", b"END\r\n"), (b"get  a\r\n", b"END\r\n"), (b"get a\tb\r\n", b"END\r\n")])
    if [o["why"] for o in w.obs if o["oracle"] == "malformed-request"] != ["bare-LF", "extra-space", "control-char"]:
        bad += 1
        print("nodetest strictness:", w.obs, errs)
    print("nodetest: %s" % ("ok" if not bad else "%d failures" % bad))
    return 1 if bad else 0


if __name__ == "__main__":
    sys.exit(main())

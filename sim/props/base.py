"""Base class for property modules."""
from .. import engine


class Prop:
    id = "C00"
    level = "exploration"
    rule = ""
    state_measure = "not measured for this property"
    assumptions = []
    components = {
        "real": ["pymemcache.client.base (Client, PooledClient, readers)", "pymemcache.pool",
                 "pymemcache.client.hash", "pymemcache.client.rendezvous", "pymemcache.client.murmur3",
                 "pymemcache.serde", "pymemcache.exceptions"],
        "simulated": ["socket module / sockets / resolver (SimNet, SimSocket)", "TLS context (SimTLSContext)",
                      "memcached server(s) (SimNode reference model)", "clock and sleep (SimClock)"],
        "stub": [],
    }

    def plan(self, tier):
        return {"units": 2000 if tier == "quick" else 50000,
                "budget_s": 60 if tier == "quick" else 900, "block": 50}

    def gen(self, rng, idx, tier):
        raise NotImplementedError

    def hooks(self, scn):
        return ()

    def run(self, scn):
        res = engine.execute(scn, self.hooks(scn))
        if not res.skipped:
            res.violations = self.judge(scn, res)
        return res

    def judge(self, scn, res):
        return []

    def trace_key(self, scn, res):
        key = []
        fault_in_flight = False
        later_call = False
        for c in res.calls:
            if c.step < 0:
                continue
            if fault_in_flight:
                later_call = True
            fired = tuple((f[2], f[0], min(f[1], 6)) for f in c.fired)
            if fired:
                fault_in_flight = True
            npieces = len(c.pieces)
            key.append((c.method, c.outcome if c.outcome == "return" else type(c.exc).__name__,
                        fired, 0 if npieces <= 1 else (1 if npieces <= 4 else 2)))
        return (scn["world"].get("stack"), tuple(key)), (fault_in_flight and later_call)

    def state_keys(self, scn, res):
        return ()

    def probes(self, scn, res):
        return {}

    def probe_names(self):
        return ()

    def sample(self, scn, res):
        return {"scenario": scn,
                "outcomes": [[c.step, c.method] + c.enc_outcome() + [[list(f) for f in c.fired]]
                             for c in res.calls][:40],
                "violations": res.violations[:3]}

    def shrink_candidates(self, scn):
        return ()


def viol(oracle, rec, disc=None, **detail):
    return {"oracle": oracle, "method": rec.method if rec is not None else None, "disc": disc,
            "step": rec.step if rec is not None else None, "detail": detail}


OWNERSHIP = ("foreign-reply-read", "unread-reply-left", "waits-for-no-reply", "command-spans-calls")


def ownership_violations(res, include_excused=False):
    """The always-on wire oracles of DESIGN 2.5, as violation records in order."""
    out = []
    calls = {c.id: c for c in res.calls}
    for o in res.world.obs:
        if o["oracle"] in OWNERSHIP:
            if o["oracle"] == "waits-for-no-reply" and o.get("excused") and not include_excused:
                continue
            rec = calls.get(o["call"])
            d = {k: v for k, v in o.items() if k not in ("oracle",)}
            culprit = rec
            if o["oracle"] in ("foreign-reply-read", "unread-reply-left"):
                culprit = calls.get(o.get("owner"), rec)   # the call that left its reply behind
                d["seen_by"] = rec.method if rec else None
            out.append({"oracle": o["oracle"], "method": culprit.method if culprit else None, "disc": None,
                        "step": rec.step if rec else None, "seq": o["seq"], "detail": d})
    return out

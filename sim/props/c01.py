"""C01 - a call only ever consumes the server's reply to its own request."""
import copy

from .. import engine, gen, model, codec
from .base import Prop, viol, ownership_violations

E = codec.enc


def make_cfg(scn, stack=None):
    w = scn["world"]
    ck = w.get("client_kwargs") or {}
    serde = engine.make_serde(ck["serde"]) if ck.get("serde") else None
    if isinstance(serde, engine.FailingSerde):
        serde = serde.inner
    item_max = 1 << 20
    refuse = ()
    for n in w.get("nodes", ()):
        item_max = (n.get("opts") or {}).get("item_max", item_max)
        refuse = tuple(codec.dec(k) for k in (n.get("opts") or {}).get("refuse_set", ())) or refuse
    return model.Cfg(stack=stack or w.get("stack", "client"),
                     key_prefix=codec.dec(ck.get("key_prefix", E(b""))),
                     default_noreply=ck.get("default_noreply", True), serde=serde,
                     encoding=ck.get("encoding", "ascii"),
                     allow_unicode_keys=ck.get("allow_unicode_keys", False), item_max=item_max,
                     refuse_set=refuse)


class SnapshotHook:
    """Before each call: snapshot every node's visible store (what 'the server actually
    holds'); after a fault-free call: the result must equal the documented contract
    applied to that snapshot."""

    def __init__(self, cfg):
        self.cfg = cfg

    def before_call(self, world, res, rec):
        rec.extra["snap"] = {nid: n.snapshot() for nid, n in world.nodes.items()}

    def after_call(self, world, res, rec):
        pass


def call_keys(method, args, kwargs):
    """Caller keys a call addresses (None if not key-addressed)."""
    if method in ("set_many", "set_multi"):
        return list(args[0].keys())
    if method in ("get_many", "gets_many", "delete_many", "get_multi", "delete_multi"):
        return list(args[0])
    if method in ("flush_all", "version", "stats", "quit", "raw_command", "cache_memlimit",
                  "shutdown", "close", "__init__"):
        return None
    return [args[0]]


def expected_from_snapshot(cfg, world, rec, scn_step):
    """Model result for a call given the pre-call snapshots and the routing actually used."""
    args = [codec.dec(a) for a in scn_step.get("a", ())]
    kwargs = {k: codec.dec(v) for k, v in (scn_step.get("k") or {}).items()}
    snaps = rec.extra["snap"]
    # routing: which node received the command for which wire key
    route = {}
    for nid, verb, key, detail, _seq in rec.commands:
        if key is not None:
            route.setdefault(key, nid)
    m = model.ApiModel(cfg, _FrozenClock(rec.t0), snapshot_mode=True)
    keys = call_keys(rec.method, args, kwargs)
    if keys is not None and cfg.stack == "hash":
        # HashClient places a key by the caller's spelling (str and bytes spellings of one memcached key may
        # live on different servers - placement is C11/C12's subject): such calls are not judged against a
        # single map
        spell = {}
        for k in keys:
            spell.setdefault(m.wire(k), set()).add(type(k))
        if any(len(v) > 1 for v in spell.values()):
            return model.SKIP
    if keys is not None:
        for k in keys:
            wk = m.wire(k)
            nid = route.get(wk)
            if nid is None:
                if len(snaps) == 1 and cfg.stack != "hash":
                    nid = next(iter(snaps))
                else:
                    return model.SKIP   # no command sent for this key (retry window etc.)
            it = snaps[nid].get(wk)
            if it is not None:
                m.items[wk] = [it[0], it[1], it[2], it[3], rec.t0]
    elif rec.method == "version":
        nids = {c[0] for c in rec.commands}
        if len(nids) != 1:
            return model.SKIP
        cfg = copy.copy(cfg)
        cfg.version = world.nodes[nids.pop()].version
        m.cfg = cfg
    return m.apply(rec.method, args, kwargs)


class _FrozenClock:
    def __init__(self, now):
        self.now = now


def tok_check_snapshot(wk, ver, actual):
    return isinstance(actual, bytes) and actual == b"%d" % ver


def check_result(cfg, world, rec, st, ignore_exc=False):
    """Returns None if fine/skip, else a detail dict."""
    exp = expected_from_snapshot(cfg, world, rec, st)
    if exp == model.SKIP:
        return None
    if exp[0] == "raise":
        if rec.outcome != "raise" and not ignore_exc:
            return {"expected": exp, "got": rec.enc_outcome()}
        return None
    if rec.outcome == "raise":
        return {"expected": ["return", E(_strip_tok(exp[1]))], "got": rec.enc_outcome()}
    if not model.results_equal(exp[1], rec.value, tok_check_snapshot):
        return {"expected": ["return", E(_strip_tok(exp[1]))], "got": rec.enc_outcome()}
    return None


def _strip_tok(v):
    if isinstance(v, tuple) and len(v) == 3 and v[0] == "tok":
        return b"%d" % v[2]
    if isinstance(v, tuple):
        return tuple(_strip_tok(x) for x in v)
    if isinstance(v, dict):
        return {k: _strip_tok(x) for k, x in v.items()}
    return v


def gen_world(rng, stacks=("client", "pooled", "hash"), max_nodes=3, tls_ok=False):
    stack = rng.choice(stacks)
    nn = 1 if stack != "hash" else rng.randint(1, max_nodes)
    item_max = rng.choice([None, None, 64, 300])
    tls = rng.random() < 0.12
    nodes, servers = gen.node_specs(nn, unix=(not tls and rng.random() < 0.15), item_max=item_max)
    ck = {"default_noreply": rng.random() < 0.4, "timeout": rng.choice([None, 0.5, 3]),
          "connect_timeout": rng.choice([None, 0.5, 3])}
    if rng.random() < 0.08:
        ck["default_noreply"] = int(ck["default_noreply"])       # 1 / 0 as a settings file would deliver it
    if rng.random() < 0.3:
        ck["key_prefix"] = E(rng.choice([b"p:", b"pfx-"]))
    if rng.random() < 0.3:
        ck["ignore_exc"] = True
    if rng.random() < 0.2:
        ck["no_delay"] = True
    if stack == "pooled" or (stack == "hash" and rng.random() < 0.4):
        if stack == "hash":
            ck["use_pooling"] = True
        ck["max_pool_size"] = rng.choice([None, 1, 2])
        if rng.random() < 0.3:
            ck["pool_idle_timeout"] = rng.choice([5, 60])
    if stack == "hash":
        ck["retry_attempts"] = rng.choice([0, 1, 2])
        rt, dt = rng.choice([(1, 60), (0.5, 5), (2, 10)])
        ck["retry_timeout"], ck["dead_timeout"] = rt, dt
    w = {"stack": stack, "servers": servers, "nodes": nodes, "client_kwargs": ck,
         "knobs": {"recv_size": rng.choice(gen.RECV_SIZES)}}
    if item_max:
        w["knobs"]["item_max"] = item_max
    if tls:
        w["tls"] = True
    if rng.random() < 0.12:
        ck["serde"] = {"$serde": {"kind": "pickle", "proto": rng.randint(0, 5)}}
    return w


class C01(Prop):
    id = "C01"
    level = "fault_enumeration"
    rule = ("work unit = one seed; it yields either a fault sweep (one fault-free base history of 4-12 "
            "public calls on Client/PooledClient/HashClient, then one variant per (call, socket event, "
            "applicable fault kind) and per reply unit x {errline, garbage, truncate, partial-error}), or a "
            "random multi-fault history, or a fault-free history; all under seeded delivery schedules and "
            "RECV_SIZE knobs. distinct = distinct abstract traces (stack, per call: method, outcome class, "
            "[fault kind@event kind#n], piece-count bucket); non-trivial = at least one fault fired while a "
            "request was in flight AND at least one further call followed on the same object.")
    assumptions = [
        "the simulated peer sends at most one reply unit per command received and no unsolicited bytes",
        "SimNode reproduces memcached 1.6 text-protocol behaviour for the commands the client issues",
        "faults are raised at the socket_module seam; kernel-level partial delivery is modelled by recv piece sizes",
    ]

    def plan(self, tier):
        if tier == "quick":
            return {"units": 10000, "budget_s": 90, "block": 25}
        return {"units": 300000, "budget_s": 1500, "block": 50}

    STACKS = ("client", "pooled", "hash")

    def gen_base(self, rng):
        w = gen_world(rng, self.STACKS)
        stack = w["stack"]
        keys = gen.pick_keys(rng, rng.randint(2, 4))
        numeric = [k for k in keys if rng.random() < 0.35]
        big = rng.choice([None, None, 40, 200])
        wl = gen.Workload(rng, stack, keys, big=big, numeric_keys=numeric)
        steps = []
        for k in keys:       # preload so that hits, NOT_STORED, EXISTS, non-numeric all occur
            if rng.random() < 0.7:
                steps.append({"t": "call", "m": "set", "a": [E(k), E(wl.value(k))],
                              "k": {"noreply": rng.random() < 0.5}})
        npre = len(steps)
        for _ in range(rng.randint(4, 12)):
            st = wl.call()
            net = gen.gen_net(rng)
            if net:
                st["net"] = net
            steps.append(st)
            if rng.random() < 0.1:
                steps.append({"t": "advance", "dt": rng.choice([0.25, 2, 30, 120])})
        return {"property": self.id, "world": w, "steps": steps}, npre

    def gen(self, rng, idx, tier):
        base, npre = self.gen_base(rng)
        mode = rng.random()
        if mode < 0.08:
            return [base]
        call_steps = [i for i, s in enumerate(base["steps"]) if s["t"] == "call" and i >= npre]
        if mode < 0.5:
            res = engine.execute(base, ())
            recs = {c.step: c for c in res.calls}
            # sweep a random subset of calls, but every event / fault kind of those
            chosen = sorted(rng.sample(call_steps, min(len(call_steps), rng.randint(1, 3))))
            chosen = [i for i in chosen if i < len(base["steps"]) - 1] or chosen
            return [base] + gen.sweep_variants(base, recs, chosen,
                                               ("connect", "sendall", "recv", "close"), rng)
        scn = base
        nf = rng.choice([1, 1, 2, 3])
        for _ in range(nf):
            i = rng.choice(call_steps)
            scn["steps"][i].setdefault("faults", []).append(gen.random_fault(rng))
        return [scn]

    def hooks(self, scn):
        return (SnapshotHook(None),)

    def judge(self, scn, res):
        out = ownership_violations(res)
        calls_by_id = {c.id: c for c in res.calls}
        for o in res.world.obs:
            if o["oracle"] == "malformed-request":
                # every request of this workload is well-formed, so the server can only see a malformed one if the
                # client garbled it on the wire (e.g. re-sent part of a request on the same connection)
                rec = calls_by_id.get(o["call"])
                out.append(viol("request-garbled-on-the-wire", rec, disc=o.get("why"), line=repr(o.get("line"))[:80]))
        cfg = make_cfg(scn)
        ign = bool((scn["world"].get("client_kwargs") or {}).get("ignore_exc"))
        for rec in res.calls:
            if rec.step < 0 or rec.fired:
                continue
            st = scn["steps"][rec.step]
            d = check_result(cfg, res.world, rec, st, ignore_exc=ign)
            if d is not None:
                out.append(viol("result-not-from-own-reply", rec, **d))
            elif rec.outcome == "return" and rec.sent == 0 and rec.value and cfg.stack != "hash" and \
                    rec.method in ("version", "stats", "raw_command"):
                # a result that only the server can know, returned by a call that asked the server nothing
                out.append(viol("result-not-from-own-reply", rec, disc="nothing-was-sent", got=rec.enc_outcome()))
        out.sort(key=lambda v: (v["step"] if v["step"] is not None else -1))
        return out

    def probe_names(self):
        return ("fault-on-later-reply-of-batch", "torn-send", "call-after-fault", "noreply-call",
                "crlf-straddle-possible", "hash-multi-node-call")

    def probes(self, scn, res):
        p = {}
        after = False
        for c in res.calls:
            if after:
                p["call-after-fault"] = p.get("call-after-fault", 0) + 1
            for f in c.fired:
                after = True
                if f[0] == "reply" and f[1] >= 1:
                    p["fault-on-later-reply-of-batch"] = 1
            if c.sent and not c.received and c.outcome == "return" and c.method != "quit":
                p["noreply-call"] = 1
            if len(c.pieces) > 2:
                p["crlf-straddle-possible"] = 1
            if len({x[0] for x in c.commands}) > 1:
                p["hash-multi-node-call"] = 1
        return p


PROP = C01()

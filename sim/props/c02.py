"""C02 - requests are well-formed memcached commands; arguments cannot inject."""
import decimal

from .. import engine, gen, codec, model
from ..world import EPOCH
from .base import Prop, viol, ownership_violations

E = codec.enc

CLASSES = {
    "print": b"aZ09_-:./~!", "SP": b" ", "TAB": b"\t", "CR": b"\r", "LF": b"\n", "VT": b"\x0b", "FF": b"\x0c",
    "NUL": b"\x00", "C0": b"\x01\x07\x1b\x1f", "DEL": b"\x7f", "HI": b"\x80\xa0\xc3\xff\x85",
}
PROTO_VALUES = [b"\r\nset x 0 0 1\r\ny\r\n", b"END\r\n", b"VALUE k 0 1\r\n", b"\r\nflush_all\r\n", b"", b"x",
                b"noreply", b" 0 0 1 noreply\r\nz", b"\r\n", b"get a\r\n" * 3, b"STORED\r\n", b"quit\r\n"]


def adversarial_key(rng, plen):
    r = rng.random()
    if r < 0.06:
        return rng.choice([b"", ""])
    if r < 0.16:
        ws = rng.choice([b" ", b"\t", b"\r\n", b"  ", b"\n", b"\x0b", b"\x0c", b" \t\r\n", b"\r"])
        return ws if rng.random() < 0.7 else ws.decode()
    if r < 0.3:
        room = 250 - plen
        L = rng.choice([room - 1, room, room + 1, 249, 250, 251, 1000])
        L = max(L, 1)
        ch = rng.choice([b"k", b"\xc3\xa9"[:1], b"z"])
        return ch * L if rng.random() < 0.6 else (ch * L).decode("latin-1") if ch == b"k" else ch * L
    if r < 0.42:
        s = rng.choice(["é", "☃", "clé", "ключ", "k v", "k\u0085", "日本語", "a b", "a\tb", "k\r\nget x", " "])
        if rng.random() < 0.35:
            # spellings that are not in Unicode normal form C: the key is the code points given
            s = rng.choice(["cafe\u0301", "\u212a1", "\u1100\u1161", "q\u037e", "e\u0301" * 84, "\u2126hm"])
        return s
    # a short key with one byte of a chosen class at a chosen position
    n = rng.choice([1, 2, 3, 4, 6])
    base = [rng.choice(CLASSES["print"]) for _ in range(n)]
    if rng.random() < 0.75:
        cls = rng.choice(list(CLASSES))
        pos = rng.randrange(n)
        base[pos] = rng.choice(CLASSES[cls])
        if rng.random() < 0.2:
            base[rng.randrange(n)] = rng.choice(CLASSES[rng.choice(list(CLASSES))])
    b = bytes(base)
    if rng.random() < 0.3:
        try:
            return b.decode("ascii")
        except UnicodeDecodeError:
            return b
    return b


def legal(wk):
    return 1 <= len(wk) <= 250 and not any(c in b" \t\r\n\x0b\x0c\x00" for c in wk)


def wire(key, prefix, uni):
    """prefix + encoded key, or None if the key cannot be encoded under the configuration."""
    if isinstance(key, str):
        try:
            key = key.encode("utf8" if uni else "ascii")
        except UnicodeEncodeError:
            return None
    return prefix + key


BAD_INTS = [1.5, "7", None, decimal.Decimal("3"), b"5", [1], 2.0]


class C02(Prop):
    id = "C02"
    level = "exploration"
    rule = ("work unit = one seed -> one public call (every operation) on Client / PooledClient / HashClient with "
            "adversarial arguments: keys (str and bytes) built from byte classes {printable, SP, TAB, CR, LF, VT, "
            "FF, NUL, other C0, DEL, 0x80-0xff, multi-byte UTF-8, non-ASCII str} at every position of short keys, "
            "empty and whitespace-only keys, lengths 249/250/251/1000 with and without prefix, allow_unicode_keys "
            "on/off, encodings; values containing protocol text; integer arguments at range ends and non-integers; "
            "followed by a sentinel get. Oracle: either the call raised and the seam saw zero bytes, or the "
            "reference node's strict parser read exactly the intended commands (derived independently from the "
            "call) with no malformed-request observation; multi-key calls on Client/PooledClient with one illegal "
            "key send nothing. distinct = (method, key class vector, outcome class); non-trivial = the call had "
            "at least one argument outside the plain-printable class.")
    assumptions = ["input-driven: no fault is injected; the deciding dimension is seeded input generation, the "
                   "oracle (server-grade parser + call-intent log) lives in the simulated peer",
                   "integers outside the protocol's ranges and bool arguments are not generated (the property "
                   "does not say what should happen to them)"]

    def plan(self, tier):
        if tier == "quick":
            return {"units": 400000, "budget_s": 90, "block": 2000}
        return {"units": 12000000, "budget_s": 1500, "block": 5000}

    def gen(self, rng, idx, tier):
        stack = rng.choice(["client", "client", "pooled", "hash"])
        nodes, servers = gen.node_specs(1)
        prefix = rng.choice([b"", b"", b"", b"p:", b"x" * 200, b"y" * 249, b"z" * 250, "sp", b"pre fix", b"\xc3\xa9"])
        uni = rng.random() < 0.4
        ck = {"default_noreply": rng.random() < 0.5, "allow_unicode_keys": uni}
        if prefix != b"":
            ck["key_prefix"] = E(prefix)
        if rng.random() < 0.3:
            ck["encoding"] = "utf-8"
        if stack == "hash" and rng.random() < 0.4:
            ck["use_pooling"] = True
        if rng.random() < 0.15:
            ck["serde"] = {"kind": "pickle"}     # serializer flags of its own: an explicit flags= must still win
        if stack == "client" and rng.random() < 0.2:
            # a plain Client validates before the exchange that ignore_exc protects: illegal input is still refused
            # with an input error, unsent.  (PooledClient and HashClient apply the documented "treat any errors as
            # cache misses" to input errors as well - nothing is sent either, but nothing is raised - so they are
            # left out of this dimension.)
            ck["ignore_exc"] = True
        w = {"stack": stack, "servers": servers, "nodes": nodes, "client_kwargs": ck,
             "knobs": {"recv_size": rng.choice([4096, 4096, 7])}}
        bprefix = prefix.encode("ascii") if isinstance(prefix, str) else prefix
        plen = len(bprefix)
        good = [b"g1", "g2", b"g3"]

        def key():
            return adversarial_key(rng, plen) if rng.random() < 0.8 else rng.choice(good)

        def value():
            r = rng.random()
            if r < 0.5:
                return rng.choice(PROTO_VALUES)
            if r < 0.6:
                return rng.choice(["text", "café", "\r\nquit\r\n", ""])
            if r < 0.7:
                return rng.choice([0, 17, -3, 10 ** 20])
            if rng.random() < 0.02:
                # above memcached's default item limit: still the caller's command, for the server to refuse
                return bytes([rng.randrange(97, 123)]) * ((1 << 20) + rng.choice([1, 77, 4096]))
            return gen.pick_value(rng, big=rng.choice([None, 5000]))

        def expire():
            return rng.choice([0, 1, 100, -1, int(EPOCH) + 99, 2 ** 31 - 1, 2 ** 31, 2 ** 63 - 1, -2 ** 63, 2592000, 2592001])

        def maybe_bad(v, p=0.12):
            return rng.choice(BAD_INTS) if rng.random() < p else v

        m = rng.choice(["set", "set", "add", "replace", "append", "prepend", "cas", "set_many", "set_many", "get",
                        "gets", "gat", "gats", "get_many", "get_many", "gets_many", "delete", "delete_many",
                        "delete_many", "incr", "decr", "touch", "flush_all", "__setitem__", "__getitem__",
                        "__delitem__", "cache_memlimit"])
        if stack == "hash" and (m.startswith("__") or m == "cache_memlimit"):
            m = "set"
        if stack == "pooled" and m == "cache_memlimit":
            m = "touch"
        a, k = [], {}
        nr = rng.choice([None, None, True, False])
        if m in ("set", "add", "replace", "append", "prepend"):
            a = [E(key()), E(value())]
            if rng.random() < 0.6:
                k["expire"] = E(maybe_bad(expire()))
            if rng.random() < 0.4:
                k["flags"] = E(maybe_bad(rng.choice([0, 1, 65535, 2 ** 32 - 1]), 0.2))
            if nr is not None:
                k["noreply"] = nr
        elif m == "cas":
            a = [E(key()), E(value()),
                 E(rng.choice([0, 1, 2 ** 64 - 1, "123", b"456", "12a", b"1 noreply", -1, 1.5, None, "", b"\r\n", "١٢",
                                b"123\n", "7\n", b"5\r", b"5\r\n", b" 5", b"5 ", b"\n5", "+5", b"5\x00", b"0x1f", "1_0"]))]
            if rng.random() < 0.5:
                k["expire"] = E(maybe_bad(expire()))
            if nr is not None:
                k["noreply"] = nr
        elif m == "set_many":
            ks = [key() if rng.random() < 0.35 else rng.choice(good) for _ in range(rng.randint(1, 4))]
            d = {}
            for kk in ks:
                d[kk] = value()
            a = [E(d)]
            if rng.random() < 0.4:
                k["expire"] = E(maybe_bad(expire()))
            if nr is not None:
                k["noreply"] = nr
        elif m in ("get", "gets", "__getitem__", "__delitem__"):
            a = [E(key())]
        elif m in ("gat", "gats"):
            a = [E(key())]
            if rng.random() < 0.7:
                k["expire"] = E(maybe_bad(expire()))
        elif m in ("get_many", "gets_many", "delete_many"):
            ks = [key() if rng.random() < 0.35 else rng.choice(good) for _ in range(rng.randint(0, 5))]
            if rng.random() < 0.03:
                # a very long key list with one illegal key somewhere late (batching / flushing boundaries)
                n = rng.choice([513, 600, 1025, 1100])
                ks = [b"k%d" % i for i in range(n)]
                ks[min(n - 1, rng.choice([n - 1, 512, n // 2 + 300, 520]))] = rng.choice([b"bad key", b"", b"x\r\ny", "é" * 3])
            a = [E(ks)]
            if rng.random() < 0.12:
                a = [{"$iter": [E(x) for x in ks]}]      # a one-shot iterator (also an empty one) of keys
            if m == "delete_many" and nr is not None:
                k["noreply"] = nr
        elif m == "delete":
            a = [E(key())]
            if nr is not None:
                k["noreply"] = nr
        elif m in ("incr", "decr"):
            a = [E(key()), E(maybe_bad(rng.choice([0, 1, 2 ** 64 - 1, 2 ** 63, 99]), 0.2))]
            if nr is not None:
                k["noreply"] = nr
        elif m == "touch":
            a = [E(key())]
            if rng.random() < 0.7:
                k["expire"] = E(maybe_bad(expire()))
            if nr is not None:
                k["noreply"] = nr
        elif m == "flush_all":
            if rng.random() < 0.7:
                k["delay"] = E(maybe_bad(rng.choice([0, 1, 60, 2 ** 31])))
            if nr is not None:
                k["noreply"] = nr
        elif m == "__setitem__":
            a = [E(key()), E(value())]
        elif m == "cache_memlimit":
            a = [E(maybe_bad(rng.choice([8, 64, 2 ** 31]), 0.3))]
        steps = [{"t": "call", "m": m, "a": a, "k": k, "tag": "probe"},
                 {"t": "call", "m": "get", "a": [E(b"sentinel")], "k": {}, "tag": "sentinel"}]
        scn = {"property": self.id, "world": w, "steps": steps}
        if rng.random() < 0.06:
            # legal-but-unusual event: the write is interrupted (EINTR) after part of the request has left;
            # whatever reaches the server must still be (a prefix of) the intended request, never a re-sent mix
            steps[0]["faults"] = [{"at": ["sendall", 0], "kind": "eintr", "sent": rng.choice([1, 3, 6, 12, 25])}]
        if stack == "client" and rng.random() < 0.06:
            # a multi-key store rejected half-way (a legal key first, then an illegal one) followed by an ordinary
            # store on the same client: the second request is the second call's command and nothing more
            bad = adversarial_key(rng, plen)
            scn["steps"] = [{"t": "call", "m": "set_many", "a": [E({rng.choice(good): b"first", bad: b"x"})],
                             "k": {"noreply": rng.choice([True, False])}, "tag": "prelude"},
                            {"t": "call", "m": rng.choice(["set", "add", "set_many"]), "a": [], "k": {}, "tag": "probe"},
                            steps[1]]
            pm = scn["steps"][1]["m"]
            scn["steps"][1]["a"] = [E({b"g3": b"second"})] if pm == "set_many" else [E(b"g3"), E(b"second")]
            scn["steps"][1]["k"] = {"noreply": rng.choice([True, False])}
        elif stack != "hash" and rng.random() < 0.12:
            # the same token used once as a stats / cache_memlimit argument and once as a key (two call sites
            # that validate through the same helper with different prefixes), in either order
            tok = rng.choice(["items", "slabs", "settings", b"sizes", "64", b"128"])
            if tok in ("64", b"128") and stack == "client":
                other = {"t": "call", "m": "cache_memlimit", "a": [int(tok)], "k": {}}
            else:
                other = {"t": "call", "m": "stats", "a": [E(tok)], "k": {}}
            keyed = {"t": "call", "m": rng.choice(["get", "set", "delete", "get_many", "delete_many", "touch"]),
                     "a": [], "k": {}}
            km = keyed["m"]
            if km == "set":
                keyed["a"] = [E(tok), E(b"v")]
            elif km in ("get_many", "delete_many"):
                keyed["a"] = [E([rng.choice(good), tok])]
            else:
                keyed["a"] = [E(tok)]
            if rng.random() < 0.5:
                scn["steps"] = [dict(other, tag="prelude"), dict(keyed, tag="probe"), steps[1]]
            else:
                scn["steps"] = [dict(keyed, tag="prelude"), dict(other, tag="probe"), steps[1]]
        return [scn]

    # ---- the commands a call *means*, derived independently of the client
    def intent(self, scn, rec, args, kwargs):
        ck = scn["world"]["client_kwargs"]
        prefix = codec.dec(ck.get("key_prefix", E(b"")))
        if isinstance(prefix, str):
            prefix = prefix.encode("ascii")
        uni = ck.get("allow_unicode_keys", False)
        enc = ck.get("encoding", "ascii")
        if scn["world"]["stack"] == "pooled":
            pass
        dn = ck.get("default_noreply", True)
        m = rec.method

        def nrp(default=None):
            v = kwargs.get("noreply")
            if v is None:
                return dn if default is None else default
            return bool(v)

        def data_of(v):
            return v if isinstance(v, bytes) else str(v).encode(enc)

        serde = engine.make_serde(ck["serde"]) if ck.get("serde") else None

        def data_flags(key, v):
            """data block and flags token the call means: the serializer's, unless flags= is given"""
            if serde is None:
                d, f = data_of(v), 0
            else:
                d, f = serde.serialize(key, v)
                d = data_of(d)
            if kwargs.get("flags") is not None:
                f = kwargs["flags"]
            return d, f

        def wk(key):
            return wire(key, prefix, uni)

        out = []
        try:
            if m in ("set", "add", "replace", "append", "prepend", "__setitem__"):
                d, f = data_flags(args[0], args[1])
                nr = True if m == "__setitem__" else nrp()
                out.append((b"set" if m == "__setitem__" else m.encode(), wk(args[0]),
                            (f, kwargs.get("expire", 0), len(d), None, nr, d)))
            elif m == "cas":
                d, f = data_flags(args[0], args[1])
                c = args[2]
                cv = int(c) if not isinstance(c, int) else c
                out.append((b"cas", wk(args[0]), (f, kwargs.get("expire", 0), len(d), cv, nrp(False), d)))
            elif m == "set_many":
                for key, v in args[0].items():
                    d, f = data_flags(key, v)
                    out.append((b"set", wk(key), (f, kwargs.get("expire", 0), len(d), None, nrp(), d)))
            elif m in ("get", "gets", "__getitem__"):
                out.append((b"gets" if m == "gets" else b"get", wk(args[0]), (None,)))
            elif m in ("gat", "gats"):
                out.append((m.encode(), wk(args[0]), (kwargs.get("expire", 0),)))
            elif m in ("get_many", "gets_many"):
                for key in args[0]:
                    out.append((b"gets" if m == "gets_many" else b"get", wk(key), (None,)))
            elif m in ("delete", "__delitem__"):
                out.append((b"delete", wk(args[0]), (True if m == "__delitem__" else nrp(),)))
            elif m == "delete_many":
                for key in args[0]:
                    out.append((b"delete", wk(key), (nrp(),)))
            elif m in ("incr", "decr"):
                out.append((m.encode(), wk(args[0]), (args[1], nrp(False))))
            elif m == "touch":
                out.append((b"touch", wk(args[0]), (kwargs.get("expire", 0), nrp())))
            elif m == "flush_all":
                out.append((b"flush_all", None, (kwargs.get("delay", 0), nrp())))
            elif m == "cache_memlimit":
                out.append((b"cache_memlimit", None, (b"%d" % args[0], False)))
            elif m == "stats":
                out.append((b"stats", None, tuple(x.encode("ascii") if isinstance(x, str) else x for x in args)))
        except Exception:
            return None
        return out

    def judge(self, scn, res):
        out = []
        pi = next(i for i, st in enumerate(scn["steps"]) if st.get("tag") == "probe")
        rec = res.by_step(pi)
        if rec is None:
            return out
        args, kwargs = res.extra["args"][pi]
        # a one-shot iterator argument has been used up by the call: judge against the list it was built from
        args = [[codec.dec(x) for x in ja["$iter"]] if isinstance(ja, dict) and "$iter" in ja else a
                for a, ja in zip(args, scn["steps"][pi]["a"])]
        node = res.world.nodes[0]
        stack = scn["world"]["stack"]
        sent = rec.sent
        malformed = [o for o in res.world.obs if o["oracle"] == "malformed-request" and o["call"] == rec.id]
        got = [(c[1], c[2], c[3]) for c in rec.commands]
        if sent == 0 and not rec.kinds.get("sendall"):
            if rec.outcome == "return" and rec.method not in ("get_many", "gets_many", "delete_many", "set_many"):
                out.append(viol("returned-without-sending", rec, got=rec.enc_outcome()))
            elif rec.outcome == "return" and len(args[0]) > 0:
                out.append(viol("returned-without-sending", rec, got=rec.enc_outcome()))
        else:
            if malformed:
                o = malformed[0]
                out.append(viol("malformed-request-sent", rec, disc=o["why"], why=o["why"],
                                line=repr(o["line"])[:120], key=repr(args[0])[:80] if args else None))
            else:
                want = self.intent(scn, rec, args, kwargs)
                if rec.fired and want is not None:
                    want = want[:len(got)] if got == want[:len(got)] else want   # an interrupted write may be cut short
                if want is None:
                    out.append(viol("uninterpretable-arguments-were-sent", rec, got=repr(got)[:300]))
                elif want != got:
                    n = min(len(want), len(got))
                    i = next((j for j in range(n) if want[j] != got[j]), n)
                    if stack in ("client", "pooled") and rec.outcome == "raise" and len(got) < len(want):
                        disc = "partial-multi-key-send"
                    else:
                        disc = None
                    if stack == "hash" and rec.outcome == "raise" and got == want[:len(got)] and \
                            rec.method in ("delete_many", "set_many", "get_many", "gets_many"):
                        want = got     # only Client/PooledClient promise all-or-nothing for multi-key calls
                if want != got:
                    out.append(viol("parsed-commands-differ-from-intent", rec, disc=disc,
                                    first_diff=i, want=repr(want[i:i + 1])[:200], got=repr(got[i:i + 1])[:200],
                                    nwant=len(want), ngot=len(got)))
        out.extend(ownership_violations(res))
        # the sentinel get must see a clean connection
        s = res.by_step(pi + 1)
        if s is not None and not out and (s.outcome != "return" or s.value is not None) and \
                not (s.outcome == "raise" and s.sent == 0):
            out.append(viol("sentinel-get-disturbed", s, got=s.enc_outcome()))
        out.sort(key=lambda v: (v["step"] if v["step"] is not None else -1))
        return out

    def _keyclass(self, key):
        b = key.encode("utf8", "surrogatepass") if isinstance(key, str) else key
        cls = set()
        if not b:
            cls.add("empty")
        for c in b:
            for name, chars in CLASSES.items():
                if c in chars:
                    cls.add(name)
        if len(b) >= 249:
            cls.add("long%d" % min(len(b), 252))
        if isinstance(key, str):
            cls.add("str")
            if not key.isascii():
                cls.add("nonascii")
        return tuple(sorted(cls))

    def trace_key(self, scn, res):
        pi = next(i for i, st in enumerate(scn["steps"]) if st.get("tag") == "probe")
        rec = res.by_step(pi)
        st = scn["steps"][pi]
        args = [codec.dec(x) for x in st["a"]]
        kc = ()
        if args:
            a0 = args[0]
            if isinstance(a0, (bytes, str)):
                kc = (self._keyclass(a0),)
            elif isinstance(a0, (list, dict)):
                kc = tuple(self._keyclass(k) for k in a0 if isinstance(k, (bytes, str)))
        kw = tuple(sorted((k, type(codec.dec(v)).__name__) for k, v in st["k"].items()))
        oc = rec.outcome if rec.outcome == "return" else type(rec.exc).__name__
        plen = len(codec.dec(scn["world"]["client_kwargs"].get("key_prefix", E(b""))))
        key = (scn["world"]["stack"], st["m"], kc, kw, oc, plen, scn["world"]["client_kwargs"].get("allow_unicode_keys"))
        nontrivial = any(c and c != ("print",) for c in kc) or any(t not in ("int", "bool") for _, t in kw)
        return key, nontrivial

    def probe_names(self):
        return ("rejected-before-sending", "accepted-and-parsed", "whitespace-only-key", "empty-key",
                "key-at-250-boundary", "value-with-protocol-text-stored", "non-integer-argument",
                "illegal-key-inside-multi-key-call", "unicode-key-accepted",
                "token-shared-between-stats-argument-and-key", "write-interrupted-after-partial-send", "illegal-key-late-in-a-very-long-key-list")

    def probes(self, scn, res):
        p = {}
        pi = next(i for i, st in enumerate(scn["steps"]) if st.get("tag") == "probe")
        rec = res.by_step(pi)
        st = scn["steps"][pi]
        if pi > 0:
            p["token-shared-between-stats-argument-and-key"] = 1
        if rec.fired:
            p["write-interrupted-after-partial-send"] = 1
        args = [codec.dec(x) for x in st["a"]]
        if rec.outcome == "raise" and rec.sent == 0:
            p["rejected-before-sending"] = 1
        if rec.sent:
            p["accepted-and-parsed"] = 1
        keys = []
        if args:
            a0 = args[0]
            keys = [a0] if isinstance(a0, (bytes, str)) else list(a0) if isinstance(a0, (list, dict)) else []
        keys = [k for k in keys if isinstance(k, (bytes, str))]
        for k in keys:
            b = k.encode("utf8", "surrogatepass") if isinstance(k, str) else k
            if not b:
                p["empty-key"] = 1
            elif not b.strip():
                p["whitespace-only-key"] = 1
            if isinstance(k, str) and not k.isascii() and rec.sent:
                p["unicode-key-accepted"] = 1
        if len(keys) > 1 and rec.outcome == "raise":
            p["illegal-key-inside-multi-key-call"] = 1
            if len(keys) > 512:
                p["illegal-key-late-in-a-very-long-key-list"] = 1
        for c in rec.commands:
            if c[2] is not None and len(c[2]) in (249, 250):
                p["key-at-250-boundary"] = 1
            if c[1] in (b"set", b"add", b"replace", b"append", b"prepend", b"cas") and len(c[3]) > 5 and \
                    isinstance(c[3][5], bytes) and b"\r\n" in c[3][5]:
                p["value-with-protocol-text-stored"] = 1
        for v in st["k"].values():
            if not isinstance(codec.dec(v), (int, type(None))):
                p["non-integer-argument"] = 1
        return p


PROP = C02()

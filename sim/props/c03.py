"""C03 - reply parsing does not depend on how the byte stream is split."""
import copy
import itertools

from .. import engine, gen, codec, model
from .base import Prop, viol, ownership_violations

E = codec.enc
WHOLE = 1 << 22


def cuts_to_seg(cuts, n):
    """cut positions (sorted, in 1..n-1) -> piece sizes, last piece = rest."""
    seg = []
    prev = 0
    for c in cuts:
        seg.append(c - prev)
        prev = c
    seg.append(0)
    return seg


class C03(Prop):
    id = "C03"
    level = "exploration"
    rule = ("work unit = one seed -> one corpus entry (server state + one public call on a Client: get gets gat gats "
            "get_many gets_many stats store/cas/set_many delete delete_many incr decr touch version flush_all "
            "cache_memlimit raw_command with end tokens CRLF / END / the 7-byte ElastiCache token), whose reply "
            "stream of n bytes is then delivered under many segmentations: all 2^(n-1) cut sets when n <= 11, else "
            "all-single-byte, every single cut, sampled 2-/3-cut sets biased to CR|LF, end-token, value-boundary "
            "and RECV_SIZE-multiple positions; EINTR before random pieces; RECV_SIZE in {1,2,3,7,64,4096}. Oracle: "
            "same return value (type and content) or exception class as the whole-reply delivery of the same "
            "entry, plus wire ownership checks with a follow-up call. distinct = distinct (entry kind, piece-size "
            "sequence, EINTR set); non-trivial = reply delivered in >= 2 pieces.")
    state_measure = "distinct (reader path, cut-class) pairs: which of line/value/segment reader saw a cut at which structural position"
    assumptions = ["the whole-reply delivery is the reference behaviour (differential oracle)",
                   "reply streams come from the reference node model"]

    def plan(self, tier):
        if tier == "quick":
            return {"units": 1000, "budget_s": 100, "block": 10}
        return {"units": 45000, "budget_s": 1700, "block": 30}

    # ---- corpus
    def entry(self, rng):
        nodes, servers = gen.node_specs(1)
        rs = rng.choice([1, 2, 3, 7, 64, 4096])
        ck = {"default_noreply": False}
        if rng.random() < 0.3:
            ck["key_prefix"] = E(b"p:")
        pfx = codec.dec(ck.get("key_prefix", E(b"")))
        w = {"stack": "client", "servers": servers, "nodes": nodes, "client_kwargs": ck,
             "knobs": {"recv_size": rs}, "capture_rx": True}
        keys = [b"k1", b"k2", "s3", b"n4"]
        sizes = [0, 1, 2, 5, max(rs - 2, 0), max(rs - 1, 0), rs, rs + 1, rs + 2, 2 * rs - 1, 2 * rs, 2 * rs + 1]
        if rng.random() < 0.15:
            sizes += [4094, 4095, 4096, 4097, 4098, 8190, 8192, 8194]
            w["knobs"]["recv_size"] = 4096
        steps = []
        vals = {}
        for k in keys:
            if rng.random() < 0.75:
                if k == b"n4":
                    v = rng.choice([b"5", b"10", b"100", b"99999"])
                else:
                    n = rng.choice(sizes)
                    frag = rng.choice([b"\r\n", b"END\r\n", b"VALUE k 0 1\r\n", b"\r", b"\n", b"x", b"ab\rcd\nef",
                                       b"ERROR: disk full\r\n", b"SERVER_ERROR x\r\nCLIENT_ERROR y\r\n"])
                    v = (frag * (n // len(frag) + 1))[:n] if rng.random() < 0.5 else \
                        bytes(rng.choice(b"abc\r\nEND ") for _ in range(n))
                vals[k] = v
                wk = pfx + (k.encode() if isinstance(k, str) else k)
                steps.append({"t": "direct", "node": 0, "key": E(wk), "value": E(v),
                              "flags": rng.choice([0, 0, 7, 4294967295])})
        m = rng.choice(["get", "get", "gets", "gat", "gats", "get_many", "get_many", "gets_many", "stats",
                        "stats_settings", "stats_cachedump", "set", "add", "replace", "append", "cas", "set_many",
                        "delete", "delete_many", "incr", "decr", "touch", "version", "flush_all",
                        "cache_memlimit", "raw_version", "raw_get", "raw_stats", "raw_config", "raw_multi",
                        "raw_err", "raw_err"])
        a, k = [], {}
        key = rng.choice(keys)
        if m in ("get", "gets"):
            a = [E(key)]
        elif m in ("gat", "gats"):
            a = [E(key)]
            k = {"expire": 100}
        elif m in ("get_many", "gets_many"):
            a = [E(rng.sample(keys, rng.randint(1, 4)))]
        elif m == "stats_settings":
            m, a = "stats", [E("settings")]
        elif m == "stats_cachedump":
            m, a = "stats", [E("cachedump"), E("1"), E("10")]
        elif m in ("set", "add", "replace", "append"):
            a = [E(key), E(b"v" * rng.choice([0, 1, 5]))]
        elif m == "cas":
            a = [E(key), E(b"nv"), E(rng.choice([b"1001", b"1002", b"5"]))]
        elif m == "set_many":
            a = [E({kk: b"w" for kk in rng.sample(keys, rng.randint(1, 4))})]
            if rng.random() < 0.3:
                # one item - not the last - is refused by the server (too large): an error line among the replies
                ks = rng.sample(keys, rng.randint(2, 4))
                big = rng.randrange(len(ks) - 1)
                a = [E({kk: (b"B" * 3000 if j == big else b"w") for j, kk in enumerate(ks)})]
                for nd in nodes:
                    nd["opts"] = dict(nd.get("opts") or {}, item_max=2048)
        elif m == "delete":
            a = [E(key)]
        elif m == "delete_many":
            a = [E(rng.sample(keys, rng.randint(1, 4)))]
        elif m in ("incr", "decr"):
            a = [E(b"n4"), rng.choice([1, 7, 95, 100000])]
        elif m == "touch":
            a = [E(key)]
            k = {"expire": 50}
        elif m == "cache_memlimit":
            a = [rng.choice([8, 64, 1024])]
        elif m == "raw_version":
            m, a = "raw_command", [E(rng.choice([b"version", b"version", b"delete " + pfx + b"k1",
                                                 b"incr " + pfx + b"n4 3"]))]
            r = rng.random()
            if r < 0.35:
                a.append(E(rng.choice([b"\n", "\n", b"\r\n"])))          # a one-byte end token (bare LF), or CRLF spelt out
            elif r < 0.45:
                k = {"end_tokens": E(b"\n")}
        elif m == "raw_get":
            m = "raw_command"
            a = [E(b"get " + pfx + b"k1"), E(rng.choice([b"END\r\n", "END\r\n"]))]
        elif m == "raw_stats":
            m = "raw_command"
            a = [E("stats"), E(b"END\r\n")]
        elif m == "raw_multi":
            m = "raw_command"
            a = [E(b"gets " + pfx + b"k1 " + pfx + b"k2"), E(b"\r\nEND\r\n")]
            if not any(st["t"] == "direct" and codec.dec(st["key"]) in (pfx + b"k1", pfx + b"k2") for st in steps):
                steps.append({"t": "direct", "node": 0, "key": E(pfx + b"k1"), "value": E(b"present"), "flags": 0})
        elif m == "raw_err":
            # an error line answered to a command that is read with a custom end token
            m = "raw_command"
            kind = rng.choice(["unknown", "config-error", "client-error"])
            tok = rng.choice([b"END\r\n", b"\n\r\nEND\r\n", "END\r\n"])
            if kind == "unknown":
                a = [E(b"bogus command"), E(tok)]
            elif kind == "config-error":
                a = [E(b"config get cluster"), E(tok)]
                nodes[0]["opts"] = {"cluster": "error"}
            else:
                a = [E(b"incr " + pfx + b"k1 notanumber"), E(tok)]
        elif m == "raw_config":
            m = "raw_command"
            a = [E(b"config get cluster")]
            k = {"end_tokens": E(b"\n\r\nEND\r\n")}
            nn = rng.randint(1, 5)
            nodes[0]["opts"] = {"cluster": {"version": rng.randint(1, 99), "nodes": [
                ["node%d.cache.example" % i, "10.1.0.%d" % (i + 1), 11211] for i in range(nn)]}}
        tok_inside = False
        if m == "raw_command":
            # an end token that also occurs inside the reply ends the read early by definition - at the FIRST
            # occurrence, however the stream is cut; what happens to the rest then depends on buffering, which
            # is not what C03 is about.  So: mostly the values are kept free of the token; in the remaining
            # scenarios they are left as they are and only the probe call's own result is judged.
            if rng.random() < 0.7:
                for st in steps:
                    if st["t"] == "direct":
                        v = codec.dec(st["value"])
                        st["value"] = E(v.replace(b"END", b"EnD").replace(b"\n\r\n", b"\n\r_"))
            else:
                tok_inside = True
        steps.append({"t": "call", "m": m, "a": a, "k": k, "tag": "probe"})
        steps.append({"t": "call", "m": "get", "a": [E(b"k2")], "k": {}, "tag": "follow"})
        ent = {"property": self.id, "world": w, "steps": steps}
        if tok_inside:
            ent["tok_inside"] = True
        return ent

    def baseline_of(self, scn):
        b = copy.deepcopy(scn)
        b["world"]["knobs"]["recv_size"] = WHOLE
        for st in b["steps"]:
            st.pop("net", None)
        return b

    def gen(self, rng, idx, tier):
        ent = self.entry(rng)
        base = self.baseline_of(ent)
        res = engine.execute(base, ())
        pi = [i for i, s in enumerate(ent["steps"]) if s.get("tag") == "probe"][0]
        rec = res.by_step(pi)
        stream = rec.extra.get("rx", b"")
        n = len(stream)
        rs = ent["world"]["knobs"]["recv_size"]
        out = []

        def variant(seg, eintr=None, recv_size=None):
            v = copy.deepcopy(ent)
            net = {"seg": seg}
            if eintr:
                net["eintr"] = eintr
            v["steps"][pi]["net"] = net
            if recv_size is not None:
                v["world"]["knobs"]["recv_size"] = recv_size
            out.append(v)

        if n <= 1:
            variant([0])
            variant([1], [0])
            return out
        if n <= 11:
            # every subset of cut positions; RECV_SIZE large enough not to add cuts of its own
            for r in range(0, n):
                for cuts in itertools.combinations(range(1, n), r):
                    variant(cuts_to_seg(cuts, n), recv_size=max(rs, 64))
            variant([0])            # and once under the knob's own RECV_SIZE
            variant([1], [0, 0, 1, 1, 1])
            return out
        # structural positions
        interesting = set()
        pos = 0
        while True:
            j = stream.find(b"\r\n", pos)
            if j < 0:
                break
            interesting.update((j, j + 1, j + 2))
            pos = j + 1
        for tok in (b"END\r\n", b"\n\r\nEND\r\n", b"VALUE "):
            j = stream.find(tok)
            while j >= 0:
                interesting.update(range(j, j + len(tok) + 1))
                j = stream.find(tok, j + 1)
        for mult in range(rs, n, rs):
            interesting.update((mult - 1, mult, mult + 1))
        interesting = sorted(p for p in interesting if 0 < p < n)
        variant([1])                                   # all single bytes
        variant([0])                                   # RECV_SIZE-sized pieces
        variant([2])
        variant([rs, 1])
        singles = list(range(1, n)) if n <= 400 else sorted(set(interesting + rng.sample(range(1, n), 200)))
        for c in singles:                              # every single cut
            variant(cuts_to_seg([c], n), recv_size=WHOLE)
        pool = interesting or list(range(1, n))
        for _ in range(120):                           # 2- and 3-cut sets, biased
            kcuts = rng.choice([2, 2, 3])
            cs = set()
            while len(cs) < min(kcuts, n - 1):
                cs.add(rng.choice(pool) if rng.random() < 0.75 else rng.randrange(1, n))
            variant(cuts_to_seg(sorted(cs), n), recv_size=rng.choice([WHOLE, rs]))
        for _ in range(30):                            # EINTR between pieces
            seg = [rng.choice([1, 2, 3, 5, rs, 0]) for _ in range(rng.randint(1, 4))]
            variant(seg, sorted(rng.choice(range(8)) for _ in range(rng.randint(1, 5))))   # repeats = EINTR bursts
        return out

    def __init__(self):
        self._cache = {}

    def baseline(self, scn):
        b = self.baseline_of(scn)
        key = codec.canon([b["world"], b["steps"]])
        hit = self._cache.get(key)
        if hit is None:
            if len(self._cache) > 64:
                self._cache.clear()
            r = engine.execute(b, ())
            hit = {c.step: c for c in r.calls}
            hit["own"] = {(v["oracle"], v["step"]) for v in ownership_violations(r)}
            self._cache[key] = hit
        return hit

    def run(self, scn):
        res = engine.execute(scn, ())
        res.extra["baseline"] = self.baseline(scn)
        res.violations = self.judge(scn, res)
        return res

    def judge(self, scn, res):
        out = []
        base = res.extra["baseline"]
        tok_inside = scn.get("tok_inside")
        for rec in res.calls:
            if rec.step < 0:
                continue
            if tok_inside and scn["steps"][rec.step].get("tag") != "probe":
                continue
            b = base.get(rec.step)
            same = False
            if b is not None:
                if b.outcome == "raise" or rec.outcome == "raise":
                    same = (b.outcome == rec.outcome and type(b.exc) is type(rec.exc))
                else:
                    same = model.results_equal(b.value, rec.value)
            if not same:
                tag = scn["steps"][rec.step].get("tag")
                out.append(viol("result-differs-from-whole-delivery", rec,
                                disc=("follow-up" if tag == "follow" else None),
                                whole=b.enc_outcome() if b else None, got=rec.enc_outcome(),
                                pieces=rec.pieces[:40]))
        # wire-level observations count only when the whole-reply delivery of the same entry does not show them
        # (e.g. a raw_command whose end token never comes waits in both)
        if not tok_inside:
            out.extend(v for v in ownership_violations(res) if (v["oracle"], v["step"]) not in base.get("own", ()))
        out.sort(key=lambda v: (v["step"] if v["step"] is not None else -1))
        return out

    def trace_key(self, scn, res):
        pi = [i for i, s in enumerate(scn["steps"]) if s.get("tag") == "probe"][0]
        rec = res.by_step(pi)
        st = scn["steps"][pi]
        pieces = tuple(rec.pieces[:200]) if rec else ()
        eintr = tuple((st.get("net") or {}).get("eintr") or ())
        key = (st["m"], codec.canon(st["a"])[:200], len(rec.extra.get("rx", b"")) if rec else 0, pieces, eintr)
        return key, len(pieces) >= 2

    def state_keys(self, scn, res):
        return self._classes(scn, res)

    def _classes(self, scn, res):
        pi = [i for i, s in enumerate(scn["steps"]) if s.get("tag") == "probe"][0]
        rec = res.by_step(pi)
        if rec is None:
            return ()
        rx = rec.extra.get("rx", b"")
        m = rec.method
        reader = "segment" if m == "raw_command" else ("value" if b"VALUE " in rx[:6] else "line")
        out = set()
        pos = 0
        for p in rec.pieces[:-1]:
            pos += p
            if 0 < pos < len(rx):
                if rx[pos - 1:pos + 1] == b"\r\n":
                    out.add((reader, "inside-CRLF"))
                elif rx[pos - 2:pos] == b"\r\n":
                    out.add((reader, "after-CRLF"))
                elif rx[pos:pos + 2] == b"\r\n":
                    out.add((reader, "before-CRLF"))
                else:
                    out.add((reader, "mid"))
                tail = rx[max(0, pos - 6):pos + 6]
                if b"END" in tail:
                    out.add((reader, "near-END"))
        return out

    def probe_names(self):
        return ("crlf-straddles-two-pieces", "end-token-straddles-pieces", "value-ends-at-piece-boundary",
                "single-byte-delivery", "eintr-between-pieces", "eintr-burst-before-one-piece", "reply-longer-than-4096", "exhaustive-cut-sets-entry",
                "segment-reader", "value-reader", "line-reader")

    def probes(self, scn, res):
        p = {}
        for reader, cls in self._classes(scn, res):
            p[reader + "-reader"] = 1
            if cls == "inside-CRLF":
                p["crlf-straddles-two-pieces"] = 1
            if cls == "near-END":
                p["end-token-straddles-pieces"] = 1
            if cls == "before-CRLF" and reader == "value":
                p["value-ends-at-piece-boundary"] = 1
        pi = [i for i, s in enumerate(scn["steps"]) if s.get("tag") == "probe"][0]
        rec = res.by_step(pi)
        if rec is not None:
            if len(rec.pieces) > 2 and all(x == 1 for x in rec.pieces):
                p["single-byte-delivery"] = 1
            if len(rec.extra.get("rx", b"")) > 4096:
                p["reply-longer-than-4096"] = 1
            ei = (scn["steps"][pi].get("net") or {}).get("eintr") or []
            if ei and len(rec.pieces) > 1:
                p["eintr-between-pieces"] = 1
            if len(ei) != len(set(ei)) and any(ei.count(x) > 1 and x < len(rec.pieces) for x in ei):
                p["eintr-burst-before-one-piece"] = 1
            if 1 < len(rec.extra.get("rx", b"")) <= 11:
                p["exhaustive-cut-sets-entry"] = 1
        return p

    def sample(self, scn, res):
        s = Prop.sample(self, scn, res)
        for o in s["outcomes"]:
            if len(str(o)) > 400:
                o[3:] = ["..."]
        return s


PROP = C03()

"""C04 - what is stored is what is fetched: values and keys survive the round trip."""
import bz2
import copy
import json
import lzma
import pickle
import zlib

from .. import engine, gen, codec, model
from .base import Prop, viol, ownership_violations

E = codec.enc
LEGAL_BYTES = bytes(b for b in range(256) if b not in b" \t\r\n\x0b\x0c\x00")
UNI_CHARS = "é☃\U0001d11eß中 \u0085 "


def legal_key(rng, plen, unicode_ok):
    """Independent constructor of legal keys: 1..250 bytes incl. prefix, no SP/TAB/CR/LF/VT/FF/NUL."""
    room = 250 - plen
    kind = rng.choice(["bytes", "bytes", "str", "ustr" if unicode_ok else "str"])
    L = rng.choice([1, 2, 3, 5, 10, 40, room - 1, room, room])
    L = max(1, min(L, room))
    if kind == "bytes":
        alphabet = LEGAL_BYTES if rng.random() < 0.4 else b"abcXYZ019_-:./\x01\x1b\x7f\x80\xff"
        return bytes(rng.choice(alphabet) for _ in range(L))
    if kind == "str":
        return "".join(chr(rng.randrange(0x21, 0x7f)) for _ in range(L))
    if rng.random() < 0.25 and room >= 8:
        # a key that is not in Unicode normal form C - a different key from its composed spelling
        return rng.choice(["cafe\u0301", "e\u0301e\u0301", "\u212bngstrom", "\u1100\u1161k", "q\u037e"])
    out, n = [], 0
    while True:
        ch = rng.choice(UNI_CHARS + "abz09")
        b = len(ch.encode("utf8"))
        if n + b > L:
            break
        out.append(ch)
        n += b
    s = "".join(out) or "k"
    pad = L - len(s.encode("utf8"))
    return s + "x" * max(pad, 0)


def wire_key(key, prefix, unicode_ok):
    if isinstance(key, str):
        key = key.encode("utf8" if unicode_ok else "ascii")
    return prefix + key


def gen_value(rng, kind, sizes):
    if kind == "bytes":
        n = rng.choice(sizes)
        r = rng.random()
        if r < 0.15 and n >= 1:
            body = bytes(rng.randrange(256) for _ in range(min(n, 32))) * (n // 32 + 1)
            tail = rng.choice([b"\r", b"\r\r", b"\r\n", b"\n", b"\r\n\r"])
            return (body[: max(n - len(tail), 0)] + tail)[-n:] if n >= len(tail) else tail[:n]
        if r < 0.35:
            frag = rng.choice([b"\r\n", b"END\r\n", b"VALUE a 0 1\r\nx\r\nEND\r\n", b"STORED\r\n", b"\x00\xff"])
            return (frag * (n // len(frag) + 1))[:n]
        return bytes(rng.randrange(256) for _ in range(min(n, 64))) * (n // 64 + 1) if n > 64 \
            else bytes(rng.randrange(256) for _ in range(n))
    if kind == "str":
        return rng.choice(["", "x", "hello world", "a\r\nb", "END", "café ☃", "z" * rng.choice(sizes[:6] or [3])])
    if kind == "int":
        return rng.choice([0, 1, -1, 42, 2 ** 31, 2 ** 63, -2 ** 64, 10 ** 30])
    if kind == "json":
        return rng.choice([{"a": 1, "b": [1, 2, {"c": None}]}, [1, "x", 2.5, True], 7, [None], {"k": "v" * 50},
                           [], {"n": {"m": {"o": [1, 2, 3]}}}])
    # arbitrary picklable objects
    def obj(depth):
        r = rng.random()
        if depth <= 0 or r < 0.35:
            return rng.choice([None, True, False, 0, -5, 3.25, "s", b"b\r\n", codec.Point(1, 2, "t"),
                               codec.MyStr("sub"), codec.MyInt(9), 10 ** 25, ""])
        if r < 0.55:
            return [obj(depth - 1) for _ in range(rng.randint(0, 3))]
        if r < 0.7:
            return tuple(obj(depth - 1) for _ in range(rng.randint(0, 3)))
        if r < 0.85:
            return {rng.choice(["a", "b", 1, (1, 2)]): obj(depth - 1) for _ in range(rng.randint(0, 3))}
        return {rng.choice([1, 2, "x", b"y", (3, 4)]) for _ in range(rng.randint(0, 3))}
    v = obj(rng.randint(0, 3))
    return v if v is not None else [None]   # a stored top-level None is indistinguishable from a miss by design


class C04(Prop):
    id = "C04"
    minimise_kwargs = False     # the scenario carries expectations derived from the configuration

    def must_keep_step(self, st):
        # the expectation list says what the store phase leaves behind: only fetches may be dropped
        return st["t"] != "call" or st["m"] not in ("get", "gets", "gat", "gats", "get_many", "gets_many",
                                                    "__getitem__")
    level = "exploration"
    rule = ("work unit = one seed -> one fault-free history on a Client (sometimes PooledClient / single-server "
            "HashClient): a store phase (set / add on fresh key / set+replace / set+gets+cas / set_many / "
            "__setitem__) of unique values under independently constructed legal keys (bytes over the full legal "
            "alphabet, ASCII str, UTF-8 str with unicode keys; lengths up to exactly 250 bytes incl. prefix), then a "
            "fetch phase (get gets gat gats __getitem__ get_many gets_many with key collections as list, tuple, set, "
            "dict view, one-shot iterator, with duplicates) under seeded delivery schedules; serde in {none, docs' "
            "JSON example, pickle protocol 0-5, compressed zlib/bz2/lzma/identity x thresholds}; prefix, encoding, "
            "RECV_SIZE and item limit varied. Oracle: server holds prefix+encoded key -> serializer bytes/flags "
            "(decoded independently); fetch returns the stored value (bit-identical bytes / equal and same type); "
            "multi-key results keyed by the caller's own key objects, each present key once, never another key's "
            "value. distinct = (serde, value kinds, key kinds, collection kinds, fetch methods); non-trivial = at "
            "least one hit and one multi-key fetch or one value larger than RECV_SIZE.")
    assumptions = ["fault-free network and a faithful server (reference node)",
                   "pickle/zlib/bz2/lzma from the standard library are trusted to round-trip"]

    def plan(self, tier):
        if tier == "quick":
            return {"units": 12000, "budget_s": 90, "block": 100}
        return {"units": 900000, "budget_s": 1500, "block": 400}

    def gen(self, rng, idx, tier):
        stack = rng.choice(["client"] * 6 + ["pooled", "hash"])
        rs = rng.choice(gen.RECV_SIZES)
        item_max = rng.choice([None, None, 8192])
        nodes, servers = gen.node_specs(1, item_max=item_max)
        prefix = rng.choice([b"", b"", b"p:", b"ns/" * 10, b"P" * 200])
        unicode_ok = rng.random() < 0.35
        encoding = rng.choice(["ascii", "ascii", "utf-8"])
        sk = rng.choice(["none", "none", "json", "pickle", "pickle", "compressed", "compressed"])
        ck = {"default_noreply": rng.random() < 0.5, "key_prefix": E(prefix), "allow_unicode_keys": unicode_ok}
        if stack != "pooled":
            ck["encoding"] = encoding     # (PooledClient's handling of encoding is C16's subject)
        else:
            encoding = "ascii"
        serde = None
        if sk == "json":
            serde = {"kind": "json"}
            if rng.random() < 0.4:
                serde["f_json"] = 0         # a custom serde is free to use flags 0 for an encoded payload
        elif sk == "pickle":
            serde = {"kind": "pickle", "proto": rng.randint(0, 5)}
        elif sk == "compressed":
            serde = {"kind": "compressed", "proto": rng.randint(0, 5), "min": rng.choice([0, 1, 10, 400]),
                     "codec": rng.choice(["zlib", "bz2", "lzma", "id"])}
        if serde:
            ck["serde"] = {"$serde": serde}
        if stack == "hash" and rng.random() < 0.5:
            ck["use_pooling"] = True
        w = {"stack": stack, "servers": servers, "nodes": nodes, "client_kwargs": ck, "knobs": {"recv_size": rs}}
        cap = item_max or 70000
        sizes = [0, 1, 2, 3, 7, 30, max(rs - 1, 0), rs, rs + 1, 2 * rs, 2 * rs + 1]
        if rng.random() < 0.25:
            sizes += [4095, 4096, 4097, 8191, 8192, min(cap, 65536), cap if item_max else 20000]
        sizes = [s for s in sizes if s <= cap]
        nkeys = rng.randint(1, 5)
        keys = []
        seen = set()
        while len(keys) < nkeys:
            k = legal_key(rng, len(prefix), unicode_ok)
            if prefix and keys and rng.random() < 0.25 and len(prefix) * 2 + 8 <= 250:
                # a caller key that itself starts with the prefix bytes, next to the key without them
                other = rng.choice(keys)
                ob = other.encode("utf8" if unicode_ok else "ascii") if isinstance(other, str) else other
                if len(prefix) + len(prefix) + len(ob) <= 250:
                    k = prefix + ob
            wk = wire_key(k, prefix, unicode_ok)
            if wk not in seen:
                seen.add(wk)
                keys.append(k)
        steps = []
        expect = []       # [key, stored python value, kind]
        uniq = 0
        for k in keys:
            if sk == "none":
                kind = rng.choice(["bytes", "bytes", "bytes", "str", "int"])
            elif sk == "json":
                kind = rng.choice(["str", "json"])
            else:
                kind = rng.choice(["bytes", "str", "int", "obj", "obj"])

            def val():
                nonlocal uniq
                v = gen_value(rng, kind, sizes)
                uniq += 1
                if kind == "bytes":      # make every stored value unique so a value identifies its key
                    tag = b"<%d>" % uniq
                    v = (tag + v[len(tag):]) if len(v) >= len(tag) else v + tag
                    if len(v) > cap:
                        v = v[:cap]
                return v
            if kind == "str" and sk in ("none", "json") and encoding == "ascii":
                v0 = val
                val = lambda v0=v0: "".join(c for c in v0() if ord(c) < 128)  # noqa: E731
            if rng.random() < 0.2:
                steps.append(self.other_traffic(rng, stack, prefix, unicode_ok, seen))
            how = rng.choice(["set", "set", "add", "replace", "cas", "set_many", "setitem"])
            v = val()
            nrk = {"noreply": rng.choice([True, False])} if rng.random() < 0.6 else {}
            if how == "set":
                steps.append({"t": "call", "m": "set", "a": [E(k), E(v)], "k": nrk})
            elif how == "add":
                steps.append({"t": "call", "m": "add", "a": [E(k), E(v)], "k": nrk})
            elif how == "replace":
                steps.append({"t": "call", "m": "set", "a": [E(k), E(val())], "k": {}})
                steps.append({"t": "call", "m": "replace", "a": [E(k), E(v)], "k": nrk})
            elif how == "cas":
                steps.append({"t": "call", "m": "set", "a": [E(k), E(val())], "k": {}})
                steps.append({"t": "call", "m": "gets", "a": [E(k)], "k": {}})
                steps.append({"t": "call", "m": "cas", "a": [E(k), E(v), {"$tok": [len(steps) - 1, None]}], "k": {}})
            elif how == "set_many":
                steps.append({"t": "call", "m": "set_many", "a": [E({k: v})], "k": nrk})
            else:
                if stack == "hash":
                    steps.append({"t": "call", "m": "set", "a": [E(k), E(v)], "k": nrk})
                else:
                    steps.append({"t": "call", "m": "__setitem__", "a": [E(k), E(v)], "k": {}})
            expect.append([E(k), E(v), kind])
        if len(keys) >= 2 and rng.random() < 0.3:
            # one multi-item set_many that overwrites several keys with values of DIFFERENT kinds (each item
            # carries its own serializer flags), in an order of its own
            ks = rng.sample(keys, rng.randint(2, len(keys)))
            kinds_all = {"none": ["bytes", "str", "int"], "json": ["str", "json"]}.get(sk, ["bytes", "str", "int", "obj"])
            kinds = [kinds_all[(j + rng.randrange(len(kinds_all))) % len(kinds_all)] if j else rng.choice(kinds_all)
                     for j in range(len(ks))]
            if len(set(kinds)) == 1 and len(kinds_all) > 1:
                kinds[-1] = [x for x in kinds_all if x != kinds[0]][0]
            d = {}
            for kk, kind2 in zip(ks, kinds):
                v2 = gen_value(rng, kind2, sizes)
                uniq += 1
                if kind2 == "bytes":
                    tag = b"<%d>" % uniq
                    v2 = ((tag + v2[len(tag):]) if len(v2) >= len(tag) else v2 + tag)[:cap]
                if kind2 == "str" and sk in ("none", "json") and encoding == "ascii":
                    v2 = "".join(c for c in v2 if ord(c) < 128)
                d[kk] = v2
                for e in expect:
                    if codec.dec(e[0]) == kk and type(codec.dec(e[0])) is type(kk):
                        e[1], e[2] = E(v2), kind2
            steps.append({"t": "call", "m": "set_many", "a": [E(d)], "k": {"noreply": rng.choice([True, False])}})
        if sk == "compressed" and serde["codec"] != "id" and serde["min"] > 0 and item_max is None and rng.random() < 0.06:
            # a value whose serialized form is far larger than the item limit but compresses to well below it
            big = rng.choice([(1 << 20) + 1, (1 << 21), 3 * (1 << 20) + 5])
            kk = rng.choice(keys)
            uniq += 1
            v2 = (b"<%d>" % uniq) + bytes([rng.randrange(256)]) * big
            steps.append({"t": "call", "m": "set", "a": [E(kk), E(v2)], "k": {"noreply": False}})
            for e in expect:
                if codec.dec(e[0]) == kk and type(codec.dec(e[0])) is type(kk):
                    e[1], e[2] = E(v2), "bytes"
        for _ in range(rng.randint(2, 6)):
            m = rng.choice(["get", "gets", "gat", "gats", "getitem", "get_many", "get_many", "gets_many"])
            st = None
            if m in ("get", "gets", "gat", "gats"):
                st = {"t": "call", "m": m, "a": [E(rng.choice(keys))], "k": {}}
            elif m == "getitem":
                st = {"t": "call", "m": "__getitem__" if stack != "hash" else "get", "a": [E(rng.choice(keys))], "k": {}}
            else:
                ks = rng.sample(keys, rng.randint(1, len(keys)))
                if rng.random() < 0.3:
                    ak = legal_key(rng, len(prefix), unicode_ok)     # an absent key
                    if wire_key(ak, prefix, unicode_ok) not in seen:
                        ks.append(ak)
                coll = rng.choice(["list", "tuple", "set", "keys", "iter", "dup"])
                if coll == "list":
                    arg = E(ks)
                elif coll == "tuple":
                    arg = E(tuple(ks))
                elif coll == "set":
                    arg = E(set(ks))
                elif coll == "keys":
                    arg = {"$keys": [E(x) for x in ks]}
                elif coll == "iter":
                    arg = {"$iter": [E(x) for x in ks]}
                else:
                    # a key listed more than once, anywhere in the collection (also ahead of other keys)
                    dk = list(ks)
                    for _d in range(rng.choice([1, 1, 2])):
                        dk.insert(rng.randint(0, len(dk)), rng.choice(ks))
                    arg = E(dk)
                st = {"t": "call", "m": m, "a": [arg], "k": {}, "coll": coll, "keys": [E(x) for x in ks]}
            net = gen.gen_net(rng, 0.5)
            if net:
                st["net"] = net
            steps.append(st)
        mutable = [codec.dec(e[0]) for e in expect if e[2] in ("obj", "json")
                   and isinstance(codec.dec(e[1]), (list, dict, set, codec.Point))]
        if mutable and rng.random() < 0.5:
            # the caller modifies what a fetch returned (and does not store it): later fetches still return
            # what the server holds
            mk = rng.choice(mutable)
            steps.append({"t": "call", "m": rng.choice(["get", "gets"]), "a": [E(mk)], "k": {}})
            steps.append({"t": "mutate", "ref": len(steps) - 1})
            steps.append({"t": "call", "m": rng.choice(["get", "gets", "gat"]), "a": [E(mk)], "k": {}})
        dubious = None
        if sk in ("pickle", "compressed") and rng.random() < 0.06:
            # text that is not encodable as strict UTF-8 (lone surrogates, e.g. from a surrogateescape-decoded file
            # name): the store may refuse it - but if the store is acknowledged, the value has to come back
            dk = legal_key(rng, len(prefix), unicode_ok)
            if wire_key(dk, prefix, unicode_ok) not in seen:
                sv = rng.choice([b"report-\xe9t\xe9.pdf".decode("utf-8", "surrogateescape"), "\ud83d", "ok\udcff!"])
                steps.append({"t": "call", "m": "set", "a": [E(dk), E(sv)], "k": {"noreply": False}, "tag": "dubious-set"})
                steps.append({"t": "call", "m": rng.choice(["get", "get_many"]), "a": [E(dk)], "k": {}, "tag": "dubious-get"})
                if steps[-1]["m"] == "get_many":
                    steps[-1]["a"] = [E([dk])]
                    steps[-1]["coll"] = "list"
                    steps[-1]["keys"] = [E(dk)]
                dubious = {"key": E(dk), "value": E(sv)}
        base = {"property": self.id, "world": w, "steps": steps, "expect": expect,
                "cfg": {"prefix": E(prefix), "unicode": unicode_ok, "encoding": encoding, "serde": serde}}
        if dubious:
            base["dubious"] = dubious
        if rng.random() < 0.25:
            # every cut position in the last bytes of one single-key reply (value end, CR|LF, END line)
            singles = [i for i, st in enumerate(steps) if st.get("m") in ("get", "gets", "gat", "gats", "__getitem__")]
            if singles:
                res = engine.execute(copy.deepcopy(base), ())
                i = rng.choice(singles)
                rec = res.by_step(i)
                if rec is not None and rec.received > 2:
                    L = rec.received
                    out = [base]
                    for cut in range(max(1, L - 12), L):
                        v = copy.deepcopy(base)
                        v["steps"][i]["net"] = {"seg": [cut, 0]}
                        v["world"]["knobs"]["recv_size"] = max(w["knobs"]["recv_size"], 1 << 20)
                        v["endcut"] = L - cut
                        out.append(v)
                    return out
        return [base]

    def other_traffic(self, rng, stack, prefix, unicode_ok, seen):
        """A call on keys that hold nothing, with its replies awaited: leaves the stored items alone, but shares
        the connection with the stores and fetches around it."""
        absent = []
        for _ in range(rng.randint(1, 3)):
            ak = legal_key(rng, len(prefix), unicode_ok)
            if wire_key(ak, prefix, unicode_ok) not in seen:
                absent.append(ak)
        if not absent:
            return {"t": "advance", "dt": 0}
        m = rng.choice(["delete_many", "delete_many", "delete", "touch", "incr", "get_many"])
        if m == "delete_many":
            return {"t": "call", "m": m, "a": [E(absent)], "k": {"noreply": False}}
        if m == "get_many":
            return {"t": "call", "m": m, "a": [E(absent)], "k": {}, "coll": "list", "keys": [E(x) for x in absent]}
        if m == "incr":
            return {"t": "call", "m": m, "a": [E(absent[0]), 1], "k": {}}
        return {"t": "call", "m": m, "a": [E(absent[0])], "k": {"noreply": False}}

    # ---- independent expectations
    def expected_fetch(self, cfg, v, kind):
        sk = (cfg["serde"] or {}).get("kind", "none")
        enc = cfg["encoding"]
        if sk == "none":
            if isinstance(v, bytes):
                return v
            return str(v).encode(enc)
        if sk == "json":
            if isinstance(v, str):
                return v.encode(enc)
            return json.loads(json.dumps(v))
        return v

    def check_stored(self, cfg, data, flags, v):
        try:
            return self._check_stored(cfg, data, flags, v)
        except Exception:        # undecodable = not a faithful serialisation
            return False

    def _check_stored(self, cfg, data, flags, v):
        """Is (data, flags) on the server a faithful serialisation of v?  Decoded independently."""
        serde = cfg["serde"] or {}
        sk = serde.get("kind", "none")
        enc = cfg["encoding"]
        if sk == "none":
            want = v if isinstance(v, bytes) else str(v).encode(enc)
            return data == want and flags == 0
        if sk == "json":
            if isinstance(v, str):
                return data == v.encode(enc) and flags == serde.get("f_str", 1)
            return flags == serde.get("f_json", 2) and json.loads(data) == json.loads(json.dumps(v))
        if flags & 8:
            if sk != "compressed":
                return False
            dec = {"zlib": zlib.decompress, "bz2": bz2.decompress, "lzma": lzma.decompress,
                   "id": lambda b: b}[serde.get("codec", "zlib")]
            data = dec(data)
            flags &= ~8
        t = type(v)
        if t is bytes:
            return flags == 0 and data == v
        if t is str:
            return flags == 16 and data == v.encode("utf8")
        if t is int:
            return flags == 2 and data == b"%d" % v
        if flags != 1:
            return False
        back = pickle.loads(data)
        return back == v and type(back) is t

    def judge(self, scn, res):
        out = []
        cfg = dict(scn["cfg"])
        prefix = codec.dec(cfg["prefix"])
        uni = cfg["unicode"]
        expect = [(codec.dec(k), codec.dec(v), kind) for k, v, kind in scn["expect"]]
        node = res.world.nodes[0]
        store = node.snapshot()
        by_wk = {}
        for k, v, kind in expect:
            by_wk[wire_key(k, prefix, uni)] = (k, v, kind)

        def find(k):
            for kk, v, kind in expect:
                if kk == k and type(kk) is type(k):
                    return v, kind
            return None

        last = res.calls[-1] if res.calls else None
        # any unexpected exception in the history (legal keys and values must be accepted)
        dub = scn.get("dubious")
        dub_stored = False
        for rec in res.calls:
            if rec.step >= 0 and scn["steps"][rec.step].get("tag") == "dubious-set":
                dub_stored = rec.outcome == "return" and rec.value is True
        for rec in res.calls:
            if rec.step >= 0 and rec.outcome == "raise":
                st = scn["steps"][rec.step]
                if st.get("tag") == "dubious-set":
                    continue            # refusing a value that cannot be encoded is fine
                if st.get("tag") == "dubious-get" and dub_stored:
                    out.append(viol("acknowledged-store-not-fetchable", rec, exc=type(rec.exc).__name__,
                                    msg=engine._exc_text(rec.exc)[:100]))
                    continue
                disc = "one-shot-iterator" if st.get("coll") == "iter" else None
                out.append(viol("legal-input-raised", rec, disc=disc, exc=type(rec.exc).__name__,
                                msg=engine._exc_text(rec.exc)[:100]))
        if not out:
            # (i) what the server holds
            for wk, (k, v, kind) in by_wk.items():
                it = store.get(wk)
                if it is None:
                    out.append(viol("stored-item-missing-or-under-wrong-key", last, key=repr(k)[:60],
                                    server_keys=[repr(x)[:40] for x in store][:6]))
                elif not self.check_stored(cfg, it[0], it[1], v):
                    out.append(viol("stored-bytes-or-flags-wrong", last, key=repr(k)[:60], flags=it[1],
                                    data=repr(it[0][:60])))
            dwk = wire_key(codec.dec(dub["key"]), prefix, uni) if dub else None
            extra = [wk for wk in store if wk not in by_wk and wk != dwk]
            if extra:
                out.append(viol("unexpected-key-on-server", last, keys=[repr(x)[:60] for x in extra][:5]))
        # (ii)/(iii) fetch results
        for rec in res.calls:
            if rec.step < 0 or rec.outcome != "return":
                continue
            st = scn["steps"][rec.step]
            m = rec.method
            if st.get("tag") == "dubious-get":
                if dub_stored:
                    sv, dk = codec.dec(dub["value"]), codec.dec(dub["key"])
                    got = rec.value.get(dk) if isinstance(rec.value, dict) else rec.value
                    if not (type(got) is type(sv) and got == sv):
                        out.append(viol("acknowledged-store-not-fetchable", rec, want=repr(sv)[:60], got=repr(got)[:60]))
                continue
            if st.get("tag") == "dubious-set":
                continue
            if m in ("get", "gat", "__getitem__", "gets", "gats"):
                k = codec.dec(st["a"][0])
                f = find(k)
                if f is None:
                    continue
                # only judge fetches that come after the key's final store
                if not self._after_final_store(scn, rec.step, st["a"][0]):
                    continue
                want = self.expected_fetch(cfg, f[0], f[1])
                got = rec.value
                if m in ("gets", "gats"):
                    if not (isinstance(got, tuple) and len(got) == 2 and isinstance(got[1], bytes)):
                        out.append(viol("fetched-value-differs", rec, want=repr(want)[:80], got=repr(got)[:80]))
                        continue
                    got = got[0]
                if not model.results_equal(want, got):
                    out.append(viol("fetched-value-differs", rec, want=repr(want)[:80], got=repr(got)[:80],
                                    kind=f[1]))
            elif m in ("get_many", "gets_many"):
                got = rec.value
                req = [codec.dec(x) for x in st["keys"]]
                if not isinstance(got, dict):
                    out.append(viol("multi-key-result-not-a-dict", rec, got=repr(got)[:80]))
                    continue
                present = [k for k in req if find(k) is not None]
                for gk, gv in got.items():
                    hit = [k for k in req if k == gk and type(k) is type(gk)]
                    if not hit:
                        out.append(viol("multi-key-result-has-foreign-key", rec, disc=st.get("coll"),
                                        key=repr(gk)[:60]))
                        continue
                    f = find(gk)
                    if f is None:
                        out.append(viol("multi-key-result-has-absent-key", rec, key=repr(gk)[:60]))
                        continue
                    want = self.expected_fetch(cfg, f[0], f[1])
                    v = gv[0] if m == "gets_many" and isinstance(gv, tuple) and len(gv) == 2 else gv
                    if not model.results_equal(want, v):
                        out.append(viol("fetched-value-differs", rec, disc="multi", want=repr(want)[:80],
                                        got=repr(v)[:80], key=repr(gk)[:40]))
                for k in present:
                    n = sum(1 for gk in got if gk == k and type(gk) is type(k))
                    if n != 1:
                        out.append(viol("present-key-missing-from-multi-key-result", rec, disc=st.get("coll"),
                                        key=repr(k)[:60], times=n))
        out.extend(ownership_violations(res))
        out.sort(key=lambda v: (v["step"] if v["step"] is not None else -1))
        return out

    def _after_final_store(self, scn, step, keyjson):
        for st in scn["steps"][step + 1:]:
            if st["t"] == "call" and st["m"] in ("set", "add", "replace", "cas", "__setitem__") and st["a"][0] == keyjson:
                return False
            if st["t"] == "call" and st["m"] == "set_many":
                return False
        # stores are all in the store phase, which precedes every fetch
        return True

    def trace_key(self, scn, res):
        cfg = scn["cfg"]
        kinds = tuple(sorted(k for _, _, k in scn["expect"]))
        keyk = tuple(sorted(("s" if "$b" not in str(k)[:4] else "b") for k, _, _ in scn["expect"]))
        colls = tuple(st.get("coll", st["m"]) for st in scn["steps"] if st["t"] == "call" and
                      st["m"] in gen.READS + ("__getitem__",))
        big = any(c.received > (scn["world"]["knobs"]["recv_size"]) for c in res.calls)
        multi = any(c.method in ("get_many", "gets_many") for c in res.calls)
        hit = any(c.outcome == "return" and c.method in ("get", "gets", "gat", "gats") and c.value not in (None, (None, None))
                  for c in res.calls)
        key = (scn["world"]["stack"], json.dumps(cfg["serde"], sort_keys=True), cfg["encoding"], kinds, keyk, colls,
               len(codec.dec(cfg["prefix"])), scn["world"]["knobs"]["recv_size"],
               tuple(len(c.pieces) for c in res.calls if c.step >= 0)[:12])
        return key, (hit or multi) and (multi or big)

    def probe_names(self):
        return ("key-exactly-250-bytes", "unicode-key", "value-larger-than-recv-size", "value-at-item-limit",
                "one-shot-iterator-keys", "set-of-keys", "dict-view-keys", "duplicate-keys", "compressed-flag-set",
                "pickle-object-roundtrip", "value-with-protocol-text", "cut-between-value-CR-and-LF",
                "value-ending-in-CR", "key-starting-with-the-prefix-bytes")

    def probes(self, scn, res):
        p = {}
        prefix = codec.dec(scn["cfg"]["prefix"])
        for k, v, kind in scn["expect"]:
            kk = codec.dec(k)
            if len(wire_key(kk, prefix, scn["cfg"]["unicode"])) == 250:
                p["key-exactly-250-bytes"] = 1
            if isinstance(kk, str) and not kk.isascii():
                p["unicode-key"] = 1
            if prefix and isinstance(kk, bytes) and kk.startswith(prefix):
                p["key-starting-with-the-prefix-bytes"] = 1
            vv = codec.dec(v)
            if isinstance(vv, bytes):
                if len(vv) > scn["world"]["knobs"]["recv_size"]:
                    p["value-larger-than-recv-size"] = 1
                if len(vv) == 8192 and scn["world"]["nodes"][0].get("opts"):
                    p["value-at-item-limit"] = 1
                if b"\r\n" in vv or b"END" in vv:
                    p["value-with-protocol-text"] = 1
            if kind == "obj":
                p["pickle-object-roundtrip"] = 1
            if isinstance(vv, bytes) and vv.endswith(b"\r"):
                p["value-ending-in-CR"] = 1
        if scn.get("endcut") == 6:
            p["cut-between-value-CR-and-LF"] = 1
        for st in scn["steps"]:
            c = st.get("coll")
            if c == "iter":
                p["one-shot-iterator-keys"] = 1
            elif c == "set":
                p["set-of-keys"] = 1
            elif c == "keys":
                p["dict-view-keys"] = 1
            elif c == "dup":
                p["duplicate-keys"] = 1
        for it in res.world.nodes[0].store.values():
            if it.flags & 8:
                p["compressed-flag-set"] = 1
        return p


PROP = C04()

"""C05 - return values report the server's actual outcome over any history."""
from .. import engine, gen, codec, model
from ..world import EPOCH
from .base import Prop, viol
from .c01 import make_cfg

E = codec.enc


class LockstepHook:
    """Steps an ApiModel (map with expiry and cas versions) in lock-step at the API level."""

    def __init__(self, scn, stack=None):
        self.scn = scn
        self.cfg = make_cfg(scn, stack)
        self.model = None
        self.mismatch = []
        self.tok_by_actual = {}

    def _m(self, world):
        if self.model is None:
            self.model = model.ApiModel(self.cfg, world.clock)
            if world.nodes:
                self.cfg.version = next(iter(world.nodes.values())).version
        return self.model

    def before_call(self, world, res, rec):
        pass

    def on_step(self, world, res, i, st):
        m = self._m(world)
        if st["t"] == "direct":
            wk = codec.dec(st["key"])
            if st.get("op", "set") == "set":
                m._due()
                m._put(wk, codec.dec(st["value"]), st.get("flags", 0), m._exp(st.get("exp", 0)))
            else:
                m.items.pop(wk, None)

    def tok_check(self, wk, ver, actual):
        if not isinstance(actual, bytes) or not actual.isdigit():
            return False
        prev = self.tok_by_actual.get(actual)
        if prev is not None and prev != (wk, ver):
            return False
        for a, p in self.tok_by_actual.items():
            if p == (wk, ver) and a != actual:
                return False       # same version must carry the same token
        self.tok_by_actual[actual] = (wk, ver)
        self.model.tokmap[actual] = (wk, ver)
        return True

    def after_call(self, world, res, rec):
        if rec.step < 0:
            return
        m = self._m(world)
        args, kwargs = res.extra["args"][rec.step]
        if rec.method in ("get_many", "gets_many", "delete_many") and args and not isinstance(args[0], (list, tuple, set, dict)):
            return
        exp = m.apply(rec.method, args, kwargs)
        if exp == model.SKIP:
            return
        bad = None
        if exp[0] == "raise":
            if rec.outcome == "return" and getattr(self, "errors_become_defaults", False):
                pass      # HashClient with ignore_exc turns a server error reply into the call's default
            elif rec.outcome != "raise" or not any(c.__name__ == exp[1] for c in type(rec.exc).__mro__):
                bad = {"expected": list(exp), "got": rec.enc_outcome()}
        elif rec.outcome == "raise":
            bad = {"expected": ["return", repr(exp[1])[:200]], "got": rec.enc_outcome()}
        elif not model.results_equal(exp[1], rec.value, self.tok_check):
            bad = {"expected": ["return", repr(exp[1])[:300]], "got": rec.enc_outcome()}
        if bad is not None:
            self.mismatch.append(("return-value-differs-from-contract", rec, bad))
            return
        # cross-invariant: the effect took place (also under noreply)
        diff = self.state_diff(world, m)
        if diff:
            self.mismatch.append(("server-state-differs-from-contract", rec, {"model_vs_server": diff}))

    def state_diff(self, world, m):
        mv = m.visible()
        nv = {}
        for n in world.nodes.values():
            for k, it in n.snapshot().items():
                nv[k] = (it[0], it[1], it[2])
        if mv != nv:
            return {repr(k): [repr(mv.get(k))[:80], repr(nv.get(k))[:80]]
                    for k in set(mv) | set(nv) if mv.get(k) != nv.get(k)}
        return None


class C05(Prop):
    id = "C05"
    level = "exploration"
    rule = ("work unit = one seed -> one fault-free history of 5-40 public calls over a universe of 2-4 keys on a "
            "Client (cross-checked on PooledClient, single-server HashClient, RetryingClient): set add replace append "
            "prepend cas(with real tokens from earlier gets) set_many get gets gat gats get_many gets_many touch "
            "delete delete_many incr decr flush_all(delay), noreply in {True, False, omitted} x default_noreply, key "
            "prefix, relative/absolute/negative expiry, clock advances that let expiries and flush delays elapse, and "
            "peer-side changes behind the client's back. Oracle: an abstract map with expiry and cas versions stepped "
            "in lock-step (return value == contract; server store == model store after every call). distinct = "
            "distinct sequences of (method, noreply class, outcome); non-trivial = at least one hit, one miss and one "
            "state-changing call. The first work units are a bounded-exhaustive enumeration ordered by depth: every "
            "sequence up to depth 3 (quick) / 4 (thorough) over 18 operation symbols on one key (set numeric / text, "
            "add, replace, append, prepend, cas with the last real token / a stale token, get, gets, gat, touch, "
            "delete, incr, decr, flush_all, two clock advances) x default_noreply on/off (12,348 resp. 222,300 "
            "histories), each closed by a gets; the remaining units are the seeded random histories.")
    state_measure = "distinct abstract model states (per key: absent | present/numeric | present/other, with-expiry flag) x pending-flush flag"
    assumptions = ["fault-free network (the fault-injecting twin of this oracle is C01's result-vs-server-state check)",
                   "expiry and flush boundaries closer than 1.5 s to a read are not judged (memcached's 1-second clock "
                   "granularity is not modelled); such scenarios are counted as skipped"]

    def plan(self, tier):
        if tier == "quick":
            return {"units": 60000, "budget_s": 90, "block": 300}
        return {"units": 3000000, "budget_s": 1500, "block": 1000}

    # ---- bounded-exhaustive part: every operation sequence up to a depth on one key
    ALPHABET = ["set5", "setx", "add", "replace", "append", "prepend", "cas_tok", "cas_bad", "get", "gets", "gat10",
                "touch10", "delete", "incr", "decr", "flush", "adv4", "adv40"]

    def enum_count(self, depth):
        return sum(len(self.ALPHABET) ** d for d in range(1, depth + 1)) * 2

    def gen_enum(self, rng, idx):
        dn = bool(idx % 2)
        k = idx // 2
        n = len(self.ALPHABET)
        d = 1
        while k >= n ** d:
            k -= n ** d
            d += 1
        seq = []
        for _ in range(d):
            seq.append(self.ALPHABET[k % n])
            k //= n
        nodes, servers = gen.node_specs(1)
        w = {"stack": "client", "servers": servers, "nodes": nodes, "client_kwargs": {"default_noreply": dn},
             "knobs": {"recv_size": 4096}}
        key = E(b"k")
        steps = []
        last_gets = None
        for sym in seq:
            nr = rng.choice([None, None, True, False])
            kw = {} if nr is None else {"noreply": nr}
            if sym == "set5":
                st = {"m": "set", "a": [key, E(b"5")], "k": dict(kw, expire=rng.choice([0, 10]))}
            elif sym == "setx":
                st = {"m": "set", "a": [key, E(b"text")], "k": kw}
            elif sym in ("add", "replace", "append", "prepend"):
                st = {"m": sym, "a": [key, E(b"1")], "k": kw}
            elif sym == "cas_tok":
                tok = {"$tok": [last_gets, None]} if last_gets is not None else E(b"1")
                st = {"m": "cas", "a": [key, E(b"9"), tok], "k": kw}
            elif sym == "cas_bad":
                st = {"m": "cas", "a": [key, E(b"9"), E(b"1")], "k": kw}
            elif sym == "get":
                st = {"m": "get", "a": [key], "k": {}}
            elif sym == "gets":
                last_gets = len(steps)
                st = {"m": "gets", "a": [key], "k": {}}
            elif sym == "gat10":
                st = {"m": "gat", "a": [key], "k": {"expire": 10}}
            elif sym == "touch10":
                st = {"m": "touch", "a": [key], "k": dict(kw, expire=10)}
            elif sym == "delete":
                st = {"m": "delete", "a": [key], "k": kw}
            elif sym in ("incr", "decr"):
                st = {"m": sym, "a": [key, rng.choice([1, 7])], "k": kw}
            elif sym == "flush":
                st = {"m": "flush_all", "a": [], "k": dict(kw, delay=rng.choice([0, 0, 10]))}
            else:
                steps.append({"t": "advance", "dt": 4 if sym == "adv4" else 40})
                continue
            st["t"] = "call"
            steps.append(st)
        steps.append({"t": "call", "m": "gets", "a": [key], "k": {}})
        return [{"property": self.id, "world": w, "steps": steps, "enum": {"depth": d, "index": idx}}]

    def gen(self, rng, idx, tier):
        depth = 3 if tier == "quick" else 4
        if idx < self.enum_count(depth):
            return self.gen_enum(rng, idx)
        stack = rng.choice(["client"] * 5 + ["pooled", "hash", "retrying"])
        item_max = rng.choice([None, None, None, 64])
        nodes, servers = gen.node_specs(1, unix=rng.random() < 0.1, item_max=item_max)
        ck = {"default_noreply": rng.random() < 0.5}
        if rng.random() < 0.4:
            ck["key_prefix"] = E(rng.choice([b"p:", b"ns/"]))
        if stack == "hash" and rng.random() < 0.5:
            ck["use_pooling"] = True
        w = {"stack": stack, "servers": servers, "nodes": nodes, "client_kwargs": ck,
             "knobs": {"recv_size": rng.choice(gen.RECV_SIZES)}}
        if item_max:
            w["knobs"]["item_max"] = item_max
        if stack == "retrying":
            w["retry_kwargs"] = {"attempts": rng.choice([1, 2, 3])}
        keys = gen.pick_keys(rng, rng.randint(2, 4))
        if rng.random() < 0.12:
            # text keys that are canonically equivalent but different strings: two keys, two items
            ck["allow_unicode_keys"] = True
            keys = keys[:2] + list(rng.choice([("caf\u00e9", "cafe\u0301"), ("\uac00", "\u1100\u1161"),
                                               ("\u03a9", "\u2126"), ("\u00c5", "A\u030a", "\u212b")]))
        pfx = codec.dec(ck.get("key_prefix", E(b"")))
        if pfx and rng.random() < 0.5:
            k0 = keys[0]
            keys.append(pfx + (k0.encode() if isinstance(k0, str) else k0))   # a key that starts with the prefix bytes
        if rng.random() < 0.2:
            # a server that refuses `set` for some keys with NOT_STORED (legal: "not stored, but not because of an
            # error"): the only way a single server makes set()/set_many() report a key as failed
            rk = rng.sample(keys, rng.randint(1, min(2, len(keys))))
            nodes[0]["opts"] = dict(nodes[0].get("opts") or {},
                                    refuse_set=[E(pfx + (k.encode() if isinstance(k, str) else k)) for k in rk])
        steps = []
        gets_steps = []   # (step index, key, kind)
        n = rng.randint(5, 40)
        wstack = "client" if stack == "retrying" else stack

        def expire():
            return rng.choice([0, 0, 10, 100, 1000, int(EPOCH) + 50, int(EPOCH) + 5000, -1, int(EPOCH) - 100])

        def nr(k, default_true=False):
            r = rng.random()
            if r < 0.33:
                k["noreply"] = True
            elif r < 0.66:
                k["noreply"] = False

        def value(key):
            r = rng.random()
            if r < 0.35:
                return rng.choice([b"0", b"5", b"10", b"99", b"100", b"18446744073709551615", b"18446744073709551614"])
            if r < 0.45:
                return b"x" * rng.choice([60, 65, 100])
            return gen.pick_value(rng)

        for _ in range(n):
            m = rng.choice(["set", "set", "add", "replace", "append", "prepend", "cas", "cas", "set_many", "get",
                            "get", "gets", "gets", "gat", "gats", "get_many", "gets_many", "touch", "delete",
                            "delete_many", "incr", "incr", "decr", "decr", "flush_all", "__setitem__",
                            "__getitem__", "__delitem__"])
            if stack in ("hash", "retrying") and m.startswith("__") and stack == "hash":
                m = "get"
            key = rng.choice(keys)
            a, k = [], {}
            if m in ("set", "add", "replace", "append", "prepend"):
                a = [E(key), E(value(key))]
                if rng.random() < 0.5:
                    k["expire"] = expire()
                if rng.random() < 0.2:
                    k["flags"] = rng.choice([0, 3, 4294967295])
                nr(k)
            elif m == "cas":
                cands = [g for g in gets_steps if g[1] == key]
                if cands and rng.random() < 0.8:
                    g = rng.choice(cands)
                    tok = {"$tok": [g[0], E(key) if g[2] == "many" else None]}
                else:
                    tok = E(rng.choice([b"1", 7, "999"]))
                a = [E(key), E(value(key)), tok]
                if rng.random() < 0.4:
                    k["expire"] = expire()
                if rng.random() < 0.4:
                    k["noreply"] = rng.random() < 0.5
            elif m == "set_many":
                ks = rng.sample(keys, rng.randint(1, len(keys)))
                a = [E({kk: value(kk) for kk in ks})]
                if rng.random() < 0.4:
                    k["expire"] = expire()
                nr(k)
            elif m == "get":
                a = [E(key)]
                if rng.random() < 0.3:
                    a.append(E(rng.choice([b"D", 0, None])))
            elif m == "gets":
                a = [E(key)]
                gets_steps.append((len(steps), key, "one"))
            elif m in ("gat", "gats"):
                a = [E(key)]
                if rng.random() < 0.7:
                    k["expire"] = expire()
                if m == "gats":
                    gets_steps.append((len(steps), key, "one"))
            elif m in ("get_many", "gets_many"):
                ks = [rng.choice(keys) for _ in range(rng.randint(0, 4))]
                if stack == "hash" or rng.random() < 0.7:
                    ks = list(dict.fromkeys(ks))
                a = [E(ks)]
                if m == "gets_many":
                    for kk in ks:
                        gets_steps.append((len(steps), kk, "many"))
            elif m == "touch":
                a = [E(key)]
                if rng.random() < 0.8:
                    k["expire"] = expire()
                nr(k)
            elif m == "delete":
                a = [E(key)]
                nr(k)
            elif m == "delete_many":
                a = [E([rng.choice(keys) for _ in range(rng.randint(0, 3))])]
                nr(k)
            elif m in ("incr", "decr"):
                a = [E(key), rng.choice([0, 1, 2, 10, 100, 18446744073709551615])]
                if rng.random() < 0.4:
                    k["noreply"] = rng.random() < 0.5
            elif m == "flush_all":
                if rng.random() < 0.15:
                    if rng.random() < 0.7:
                        k["delay"] = rng.choice([0, 10, 100])
                    nr(k)
                else:
                    m = "get"
                    a = [E(key)]
            elif m == "__setitem__":
                a = [E(key), E(value(key))]
            elif m in ("__getitem__", "__delitem__"):
                a = [E(key)]
            st = {"t": "call", "m": m, "a": a, "k": k}
            net = gen.gen_net(rng, 0.2)
            if net:
                st["net"] = net
            steps.append(st)
            r = rng.random()
            if r < 0.2:
                steps.append({"t": "advance", "dt": rng.choice([4, 4, 40, 400, 4000, 0.5])})
            elif r < 0.27:
                kk = rng.choice(keys)
                wk = pfx + (kk.encode() if isinstance(kk, str) else kk)
                if rng.random() < 0.7:
                    steps.append({"t": "direct", "node": 0, "key": E(wk), "value": E(value(kk)),
                                  "flags": rng.choice([0, 9]), "exp": rng.choice([0, 0, 100])})
                else:
                    steps.append({"t": "direct", "node": 0, "op": "delete", "key": E(wk)})
        if rng.random() < 0.04:
            # one batch of more than a hundred items, then reads of its first, middle and last keys
            nb = rng.randint(101, 260)
            bk = [b"big%03d" % j for j in range(nb)]
            k = {}
            nr(k)
            steps.append({"t": "call", "m": "set_many", "a": [E({kk: b"v%d" % j for j, kk in enumerate(bk)})], "k": k})
            steps.append({"t": "call", "m": "get_many",
                          "a": [E([bk[0], bk[99], bk[100], bk[-1], bk[rng.randrange(nb)]])], "k": {}})
            steps.append({"t": "call", "m": "get", "a": [E(bk[rng.randrange(100, nb)])], "k": {}})
        return [{"property": self.id, "world": w, "steps": steps}]

    def run(self, scn):
        stack = scn["world"]["stack"]
        hook = LockstepHook(scn, "client" if stack == "retrying" else None)
        res = engine.execute(scn, (hook,))
        if hook.model is not None and hook.model.ambiguous:
            res.skipped = "ambiguous-timing"
            return res
        out = []
        for oracle, rec, d in hook.mismatch[:3]:
            out.append(viol(oracle, rec, **d))
        res.violations = out
        res.extra["model"] = hook.model
        return res

    def trace_key(self, scn, res):
        key = []
        hit = miss = change = False
        for c in res.calls:
            if c.step < 0:
                continue
            st = scn["steps"][c.step]
            nr = (st.get("k") or {}).get("noreply", "-")
            oc = c.outcome if c.outcome == "raise" else (
                "T" if c.value is True else "F" if c.value is False else "N" if c.value is None else "V")
            key.append((c.method, nr, oc))
            if c.method in ("get", "gets", "gat", "gats"):
                if c.value is None or c.value == (None, None):
                    miss = True
                else:
                    hit = True
            if c.method in ("set", "add", "replace", "append", "prepend", "cas", "delete", "incr", "decr",
                            "set_many", "flush_all", "touch"):
                change = True
        return (scn["world"]["stack"], tuple(key)), (hit and miss and change)

    def state_keys(self, scn, res):
        m = res.extra.get("model")
        if m is None:
            return ()
        st = []
        for k in sorted(m.items, key=repr):
            it = m.items[k]
            st.append((repr(k), "num" if it[0].strip(b" ").isdigit() else "other", it[2] is not None))
        return [hash((tuple(st), m.flush_at is not None)) & 0xFFFFFFFFFFFF]

    def probe_names(self):
        return ("cas-with-real-token-stored", "cas-exists", "cas-not-found", "expired-item-missed",
                "delayed-flush-elapsed", "incr-wrapped-64bit", "decr-padded-value-read", "too-large-rejected",
                "noreply-effect-checked", "set_many-partial-failure", "peer-side-change",
                "bounded-exhaustive-sequence")

    def probes(self, scn, res):
        p = {}
        if "enum" in scn:
            p["bounded-exhaustive-sequence"] = 1
        for c in res.calls:
            if c.step < 0:
                continue
            st = scn["steps"][c.step]
            if c.method == "cas" and c.outcome == "return":
                if c.value is True and "$tok" in str(st["a"][2]):
                    p["cas-with-real-token-stored"] = 1
                elif c.value is False:
                    p["cas-exists"] = 1
                elif c.value is None:
                    p["cas-not-found"] = 1
            if c.method == "incr" and c.outcome == "return" and isinstance(c.value, int) and \
                    st["a"][1] > c.value:
                p["incr-wrapped-64bit"] = 1
            if c.method == "get" and isinstance(c.value, bytes) and c.value.endswith(b" ") and \
                    c.value.strip(b" ").isdigit():
                p["decr-padded-value-read"] = 1
            if c.outcome == "raise" and type(c.exc).__name__ == "MemcacheServerError":
                p["too-large-rejected"] = 1
            if (st.get("k") or {}).get("noreply") is True and c.sent:
                p["noreply-effect-checked"] = 1
            if c.method == "set_many" and c.outcome == "return" and isinstance(c.value, list) and c.value:
                p["set_many-partial-failure"] = 1
        if getattr(res.extra.get("model"), "expired_seen", 0):
            p["expired-item-missed"] = 1
        for st in scn["steps"]:
            if st["t"] == "direct":
                p["peer-side-change"] = 1
        w = res.world
        if w is not None and any("flush_all" == c.method and (scn["steps"][c.step].get("k") or {}).get("delay")
                                 for c in res.calls if c.step >= 0):
            p["delayed-flush-elapsed"] = 1
        return p


PROP = C05()

"""C06 - connection lifecycle: errors close, next call reconnects, no socket leaks."""
import copy

from .. import engine, gen, codec
from .base import Prop, viol
from .c01 import SnapshotHook, make_cfg, check_result
from .common import socks_used

E = codec.enc
ALL_EVENTS = ("getaddrinfo", "socket", "setsockopt", "wrap", "settimeout", "connect", "sendall", "recv",
              "close")
LOOP_FAULTS = ("nosock", "tlsfail")


class LedgerHook:
    """At every call boundary: open sockets not reachable from the object under test."""

    def before_call(self, world, res, rec):
        pass

    def after_call(self, world, res, rec):
        if res.client is None:
            return
        opens = world.open_sockets()
        if not opens:
            rec.extra["leaked"] = []
            return
        found, clients = engine.reachable_sockets(res.client)
        ids = {s.id for s in found}
        rec.extra["leaked"] = [s.id for s in opens if s.id not in ids]
        multi = []
        for c in clients:
            if len(engine.client_socket(c)) > 1:
                multi.append(len(engine.client_socket(c)))
        rec.extra["multi"] = multi


class C06(Prop):
    id = "C06"
    level = "fault_enumeration"
    rule = ("work unit = one seed -> one history of 3-10 calls on Client / PooledClient / HashClient over TCP "
            "(1-3 resolved addresses of mixed family), UNIX or TLS-wrapped connections with timeout / no_delay / "
            "keepalive configurations; half of the units sweep every socket-module event (getaddrinfo, socket, "
            "setsockopt, wrap_socket, settimeout, connect, sendall, recv, close) x applicable error kind of sampled "
            "calls, the rest place 1-3 random faults; further calls follow with faults off. distinct = abstract "
            "trace; non-trivial = a fault fired inside a call and a later call followed.")
    assumptions = [
        "single caller thread",
        "a socket counts as 'still used' while it is reachable from the client object by ordinary references",
        "TLS is modelled as a wrapper object around the raw socket; handshake failures surface from wrap_socket",
    ]

    def plan(self, tier):
        if tier == "quick":
            return {"units": 12000, "budget_s": 90, "block": 30}
        return {"units": 360000, "budget_s": 1500, "block": 60}

    def gen_world(self, rng):
        stack = rng.choice(("client", "client", "pooled", "hash"))
        nn = 1 if stack != "hash" else rng.randint(1, 3)
        tls = rng.random() < 0.25
        nodes, servers, resolver = [], [], {}
        for i in range(nn):
            kind = rng.choice(("ip", "host", "host", "unix")) if not tls else rng.choice(("ip", "host"))
            spec = {"id": i}
            if kind == "unix":
                spec["path"] = "/var/run/mc%d.sock" % i
                servers.append(E(spec["path"]))
            elif kind == "ip":
                ip = "10.0.%d.1" % i
                spec["addrs"] = [[ip, 11211]]
                servers.append(E((ip, 11211)) if rng.random() < 0.7 else E("%s:11211" % ip))
            else:
                host = "cache-%d.example" % i
                na = rng.randint(1, 3)
                addrs = []
                for j in range(na):
                    if rng.random() < 0.4:
                        addrs.append(["inet6", "fd00::%d:%d" % (i, j + 1)])
                    else:
                        addrs.append(["inet", "10.0.%d.%d" % (i, j + 1)])
                resolver[host] = addrs
                spec["addrs"] = [[a[1], 11211] for a in addrs]
                servers.append(E((host, 11211)))
            nodes.append(spec)
        ck = {"default_noreply": rng.random() < 0.4, "timeout": rng.choice([None, 0.5, 3]),
              "connect_timeout": rng.choice([None, 0.5, 3])}
        if rng.random() < 0.4:
            ck["no_delay"] = True
        if rng.random() < 0.25:
            ck["socket_keepalive"] = {"idle": 1, "intvl": 2, "cnt": 3}
        if rng.random() < 0.3:
            ck["ignore_exc"] = True
        if stack == "pooled" or (stack == "hash" and rng.random() < 0.4):
            if stack == "hash":
                ck["use_pooling"] = True
            ck["max_pool_size"] = rng.choice([None, 1, 2])
        if stack == "hash":
            ck["retry_attempts"] = rng.choice([0, 1, 2])
            ck["retry_timeout"], ck["dead_timeout"] = rng.choice([(1, 60), (0.5, 5)])
        w = {"stack": stack, "servers": servers, "nodes": nodes, "client_kwargs": ck, "resolver": resolver,
             "knobs": {"recv_size": rng.choice(gen.RECV_SIZES)}, "check_timeouts": True,
             "open_limit": nn}
        if tls:
            w["tls"] = True
        return w

    def gen(self, rng, idx, tier):
        w = self.gen_world(rng)
        keys = gen.pick_keys(rng, 3)
        wl = gen.Workload(rng, w["stack"], keys, numeric_keys=keys[:1])
        steps = []
        for _ in range(rng.randint(3, 10)):
            if rng.random() < 0.1:
                steps.append({"t": "call", "m": "close", "a": [], "k": {}})
                continue
            st = wl.call()
            net = gen.gen_net(rng, 0.3)
            if net:
                st["net"] = net
            steps.append(st)
            if rng.random() < 0.15:
                steps.append({"t": "advance", "dt": rng.choice([0.25, 2, 70])})
        base = {"property": self.id, "world": w, "steps": steps}
        call_steps = [i for i, s in enumerate(steps) if s["t"] == "call"]
        mode = rng.random()
        if mode < 0.08:
            return [base]
        if mode < 0.55:
            res = engine.execute(base, ())
            recs = {c.step: c for c in res.calls}
            pool = call_steps[:-1] or call_steps
            chosen = sorted(rng.sample(pool, min(len(pool), rng.randint(1, 2))))
            return [base] + gen.sweep_variants(base, recs, chosen, ALL_EVENTS, rng, max_per_event=4)
        for _ in range(rng.choice([1, 1, 2, 3])):
            i = rng.choice(call_steps)
            steps[i].setdefault("faults", []).append(gen.random_fault(rng, ALL_EVENTS + ("reply",)))
        return [base]

    def hooks(self, scn):
        return (SnapshotHook(None), LedgerHook())

    def judge(self, scn, res):
        out = []
        w = res.world
        wspec = scn["world"]
        stack = wspec["stack"]
        calls = {c.id: c for c in res.calls}
        for o in w.obs:
            if o["oracle"] in ("io-on-closed-socket", "wrong-timeout-at-connect", "wrong-timeout-at-io",
                               "io-on-unwrapped-socket", "raw-io-after-wrap", "too-many-open-sockets",
                               "double-wrap"):
                rec = calls.get(o["call"])
                d = {k: v for k, v in o.items() if k not in ("oracle", "call")}
                out.append(viol(o["oracle"], rec, **d))
        cfg = make_cfg(scn)
        ign = bool(wspec["client_kwargs"].get("ignore_exc"))
        resolver = wspec.get("resolver") or {}
        prev = None
        for rec in res.calls:
            if rec.step < 0:
                continue
            if rec.extra.get("leaked"):
                out.append(viol("socket-leak", rec, socks=rec.extra["leaked"],
                                fired=[list(f) for f in rec.fired]))
            if rec.extra.get("multi"):
                out.append(viol("client-with-two-sockets", rec))
            if rec.method == "close" and rec.outcome == "return" and w.sockets:
                # after close() nothing may stay open
                end = w.events[rec.ev1 - 1][0] if rec.ev1 else 0
                still = [s.id for s in w.sockets if s.created_seq < end and not s.closed_by_seq(end)]
                if still:
                    out.append(viol("open-after-close", rec, socks=still))
            for sid in socks_used(w, rec, ("sendall",)):
                s = w.sockets[sid]
                if s.failed_call is not None and s.failed_call < rec.id:
                    out.append(viol("failed-connection-reused", rec, sock=sid))
            # (Q4) address fallback
            if rec.fired and all(f[2] in LOOP_FAULTS for f in rec.fired) and stack != "hash":
                server = codec.dec(wspec["servers"][0])
                host = server[0] if isinstance(server, tuple) else None
                naddr = len(resolver.get(host, ())) if host else 0
                nfailed = len(rec.fired)
                if naddr > nfailed and rec.outcome == "raise" and isinstance(rec.exc, OSError):
                    out.append(viol("address-fallback-not-used", rec, disc="stale-error",
                                    addresses=naddr, failed=nfailed, exc=type(rec.exc).__name__))
                elif naddr > nfailed and ign and rec.method in gen.READS:
                    d = check_result(cfg, w, rec, scn["steps"][rec.step], ignore_exc=False)
                    if d is not None:
                        out.append(viol("address-fallback-not-used", rec, disc="stale-error", **d))
            # (Q3) after a failed call the next fault-free call works
            if not rec.fired and prev is not None and prev.fired and stack != "hash" \
                    and rec.method != "close":
                d = check_result(cfg, w, rec, scn["steps"][rec.step], ignore_exc=ign)
                if d is not None:
                    out.append(viol("call-after-failure-does-not-work", rec, **d))
            prev = rec
        out.sort(key=lambda v: (v["step"] if v["step"] is not None else -1))
        for v in out:      # lifecycle oracles do not depend on which public method was running
            v["detail"]["method"] = v["method"]
            v["method"] = None
        return out

    def probe_names(self):
        return ("first-address-unsocketable", "tls-connection", "unix-connection", "multi-address-host",
                "fault-during-reconnect", "close-then-call", "keepalive-configured", "torn-send")

    def probes(self, scn, res):
        p = {}
        w = scn["world"]
        if w.get("tls"):
            p["tls-connection"] = 1
        if any("path" in n for n in w["nodes"]):
            p["unix-connection"] = 1
        if any(len(v) > 1 for v in (w.get("resolver") or {}).values()):
            p["multi-address-host"] = 1
        if w["client_kwargs"].get("socket_keepalive"):
            p["keepalive-configured"] = 1
        prev = None
        for c in res.calls:
            for f in c.fired:
                if f[0] == "socket" and f[1] == 0:
                    p["first-address-unsocketable"] = 1
                if prev is not None and prev.fired and f[0] in ("connect", "socket", "settimeout", "getaddrinfo"):
                    p["fault-during-reconnect"] = 1
            if prev is not None and prev.method == "close" and c.sent:
                p["close-then-call"] = 1
            prev = c
        return p


PROP = C06()

"""C07 - ignore_exc turns every read failure into a cache miss."""
import copy

from .. import engine, gen, codec, model
from .base import Prop, viol
from .c01 import gen_world

E = codec.enc
S = codec.Sentinel


class C07(Prop):
    id = "C07"
    level = "fault_enumeration"
    rule = ("work unit = one seed -> a populated world (Client / PooledClient / HashClient over 1-3 nodes, "
            "ignore_exc=True, optional failing deserialiser), 1-3 read calls (get gets gat gats get_many gets_many; "
            "defaults by keyword, positionally for get; sentinel default objects) each with a fault plan (sweep over "
            "every socket event x fault kind and every reply unit x {errline, garbage, truncate, partial-error}, or "
            "random faults, or deserialiser failure, or node(s) down with kind refuse / connect_timeout / reset / "
            "blackhole / eof / errline incl. all servers down), then faults off, time passes, set+get must work. "
            "Oracle is differential: the same call in an identical world whose healthy nodes do not hold the keys "
            "(the miss result M) and in the same world without faults (H); the faulted call must not raise and must "
            "return M (or H / a sub-dict of H when the fault did not defeat the read). distinct = abstract trace; "
            "non-trivial = a fault fired inside a read call and later calls followed.")
    assumptions = ["single caller thread", "the miss result is whatever the same object returns on an empty healthy server"]

    def plan(self, tier):
        if tier == "quick":
            return {"units": 6000, "budget_s": 90, "block": 30}
        return {"units": 300000, "budget_s": 1500, "block": 60}

    def read_call(self, rng, stack, keys):
        m = rng.choice(gen.READS)
        a, k = [], {}
        d = rng.choice([None, S("D1"), b"dflt", 0])
        cd = rng.choice([None, S("C1"), b"0"])
        if m == "get":
            a = [E(rng.choice(keys))]
            r = rng.random()
            if r < 0.4:
                a.append(E(d))
            elif r < 0.7:
                k["default"] = E(d)
        elif m == "gets":
            a = [E(rng.choice(keys))]
            if stack != "pooled" and rng.random() < 0.6:
                k["default"] = E(d)
                if rng.random() < 0.7:
                    k["cas_default"] = E(cd)
        elif m in ("gat", "gats"):
            a = [E(rng.choice(keys))]
            if rng.random() < 0.6:
                k["expire"] = rng.choice([0, 100])
            if rng.random() < 0.6:
                k["default"] = E(d)
            if m == "gats" and stack == "client" and rng.random() < 0.5:
                k["cas_default"] = E(cd)
        else:
            ks = rng.sample(keys, rng.randint(1, len(keys)))
            a = [E(ks)]
        return {"t": "call", "m": m, "a": a, "k": k}

    def gen(self, rng, idx, tier):
        w = gen_world(rng)
        stack = w["stack"]
        ck = w["client_kwargs"]
        ck["ignore_exc"] = True
        if (stack == "pooled" or ck.get("use_pooling")) and rng.random() < 0.5:
            ck["pool_idle_timeout"] = rng.choice([5, 60])
        deser = rng.random() < 0.2
        if deser:
            ck["serde"] = {"$serde": {"kind": "faildeser", "inner": rng.choice([None, {"kind": "pickle"}])}}
        keys = gen.pick_keys(rng, rng.randint(2, 4))
        steps = []
        corrupt = None
        if not deser and rng.random() < 0.06:
            # an item marked compressed whose bytes are not a compressed stream (truncated, foreign writer, other
            # codec): undeserialisable - a miss
            ck["serde"] = {"$serde": {"kind": "compressed", "min": 1}}
            pfx = codec.dec(ck.get("key_prefix", E(b"")))
            if isinstance(pfx, str):
                pfx = pfx.encode()
            corrupt = keys[0]
            ckb = corrupt.encode("utf8") if isinstance(corrupt, str) else corrupt
            steps.append({"t": "direct", "node": 0, "key": E(pfx + ckb), "value": E(rng.choice([b"x\x9cNOT-ZLIB", b"", b"\x00"])),
                          "flags": rng.choice([8, 8 | 16, 8 | 2])})
            for n in w["nodes"][1:]:
                steps.append(dict(steps[-1], node=n["id"]))
        for k in keys:
            if rng.random() < 0.8 and k is not corrupt:
                steps.append({"t": "call", "m": "set", "a": [E(k), E(gen.pick_value(rng))],
                              "k": {"noreply": False}})
        many = None
        if stack in ("client", "pooled") and not deser and rng.random() < 0.04:
            # a multi-key read of several hundred present keys: the reply spans many recv() results, and an
            # implementation that fetches in batches has requests of its own after the first one
            many = [b"m%03d" % j for j in range(rng.randint(201, 450))]
            pfx = codec.dec(ck.get("key_prefix", E(b"")))
            if isinstance(pfx, str):
                pfx = pfx.encode()
            for mk in many:
                steps.append({"t": "direct", "node": 0, "key": E(pfx + mk), "value": E(b"v" + mk)})
            w["knobs"]["recv_size"] = 4096
        npre = len(steps)
        nreads = rng.randint(1, 3)
        mode = rng.random()
        down = None
        if mode < 0.25:
            # node health faults
            nn = len(w["nodes"])
            which = list(range(nn)) if rng.random() < 0.5 else [rng.randrange(nn)]
            kind = rng.choice(["refuse", "connect_timeout", "reset", "blackhole", "eof", "errline"])
            if rng.random() < 0.5:
                steps.append({"t": "call", "m": "close", "a": [], "k": {}})
            for i in which:
                steps.append({"t": "node", "id": i, "health": kind})
            down = which
            if len(which) == nn and rng.random() < 0.5:
                # other operations meet the failure first (they may raise - they are not reads); the reads that
                # follow must still behave.  Only when every server is down: otherwise such an operation reaches
                # some servers and not others, and the faulted world no longer has a fault-free twin to compare with
                for _ in range(rng.randint(1, 2)):
                    nm = rng.choice(["flush_all", "flush_all", "delete", "delete_many", "touch"])   # nothing that stores
                    na = {"flush_all": [], "delete": [E(keys[0])],
                          "delete_many": [E(keys[:2])], "touch": [E(keys[0])]}[nm]
                    steps.append({"t": "call", "m": nm, "a": na, "k": {"noreply": False}, "tag": "noise"})
        idle = ck.get("pool_idle_timeout")
        if idle and rng.random() < 0.6:
            # the pooled connection idles out first: its eviction happens inside the next read
            steps.append({"t": "advance", "dt": idle + rng.choice([1, 30])})
        read_steps = []
        if corrupt is not None:
            for _ in range(rng.randint(1, 3)):
                st = self.read_call(rng, stack, [corrupt] + keys[1:2])
                st["expect_miss_for"] = E(corrupt)
                steps.append(st)
        failover = stack == "hash" and down is not None and rng.random() < 0.6
        if failover:
            # the reads themselves walk the server(s) through the whole failover: first failure, every retry
            # (one per retry_timeout), eviction; the reads after dead_timeout then meet the revival
            nreads = ck.get("retry_attempts", 0) + rng.choice([2, 3, 4])
        for _ in range(nreads):
            st = self.read_call(rng, stack, keys)
            if many is not None:
                st = {"t": "call", "m": rng.choice(["get_many", "gets_many"]), "a": [E(many)], "k": {}}
            net = gen.gen_net(rng, 0.4)
            if net:
                st["net"] = net
            read_steps.append(len(steps))
            steps.append(st)
            if failover:
                steps.append({"t": "advance", "dt": ck["retry_timeout"] + rng.choice([0.5, 0.25])})
            elif rng.random() < 0.2:
                steps.append({"t": "advance", "dt": rng.choice([0.25, 2])})
        if failover and rng.random() < 0.5:
            # ... while the server is still down
            steps.append({"t": "advance", "dt": ck["dead_timeout"] + 1})
            for _ in range(rng.randint(1, 2)):
                read_steps.append(len(steps))
                steps.append(self.read_call(rng, stack, keys))
        if down is not None and len(down) == len(w["nodes"]) and rng.random() < 0.4:
            # read-through fill: the application adds to the (empty) dict a failed multi-key read gave it, then
            # reads again while the servers are still down - still a miss, not the application's own entries
            steps.append({"t": "call", "m": rng.choice(["get_many", "gets_many"]), "a": [E(keys[:2])], "k": {}})
            read_steps.append(len(steps) - 1)
            steps.append({"t": "mutate", "ref": len(steps) - 1})
            for _ in range(rng.randint(1, 2)):
                read_steps.append(len(steps))
                steps.append(self.read_call(rng, stack, keys))
        if down is not None:
            for i in down:
                steps.append({"t": "node", "id": i, "health": "up"})
        dead = ck.get("dead_timeout", 0) if stack == "hash" else 0
        if dead and rng.random() < 0.5:
            # the application never pauses: a read every quarter of dead_timeout, for two and a half periods
            # (every key in turn, so that every server sees the traffic: a server nobody talks to keeps its old
            # failure record, and the first call that meets it again both evicts it and is still run on it - the
            # "+2" of C13 - which would make the read-your-write probe at the end a test of that, not of C07)
            gap = max(dead / 4.0, 0.5)
            n = int((2.5 * dead + 5) / gap) + 1
            n += (-n) % len(keys)
            for j in range(n):
                steps.append({"t": "advance", "dt": gap})
                steps.append({"t": "call", "m": "get", "a": [E(keys[(j + 1) % len(keys)])], "k": {}, "tag": "warm"})
            steps.append({"t": "advance", "dt": gap})
        else:
            steps.append({"t": "advance", "dt": 2 * dead + 5})
            steps.append({"t": "call", "m": "get", "a": [E(keys[0])], "k": {}, "tag": "warm"})
            steps.append({"t": "advance", "dt": 2 * dead + 5})
        steps.append({"t": "call", "m": "set", "a": [E(keys[0]), E(b"usable")], "k": {"noreply": False},
                      "tag": "usable-set"})
        steps.append({"t": "call", "m": "get", "a": [E(keys[0])], "k": {}, "tag": "usable-get"})
        base = {"property": self.id, "world": w, "steps": steps, "npre": npre}
        if down is not None:
            return [base]
        if deser and rng.random() < 0.6:
            for i in read_steps:
                steps[i].setdefault("faults", []).append({"at": ["deser", rng.choice([0, 0, 1])], "kind": "deser"})
            return [base]
        if many is not None:
            res = engine.execute(base, ())
            recs = {c.step: c for c in res.calls}
            return gen.sweep_variants(base, recs, [read_steps[-1]], ("recv",), rng, max_per_event=3) or [base]
        if mode < 0.7:
            res = engine.execute(base, ())
            recs = {c.step: c for c in res.calls}
            chosen = [rng.choice(read_steps)]
            return gen.sweep_variants(base, recs, chosen,
                                      ("getaddrinfo", "socket", "settimeout", "connect", "sendall", "recv", "close"),
                                      rng, max_per_event=4) or [base]
        for _ in range(rng.choice([1, 1, 2, 3])):
            i = rng.choice(read_steps)
            steps[i].setdefault("faults", []).append(gen.random_fault(rng))
        return [base]

    def variants(self, scn):
        """A: healthy nodes that do not hold the keys; C: same state, no faults."""
        a = copy.deepcopy(scn)
        c = copy.deepcopy(scn)
        npre = scn.get("npre", 0)
        a["steps"] = [st for i, st in enumerate(a["steps"])
                      if not (i < npre) and st["t"] != "node"]
        for st in a["steps"]:
            st.pop("faults", None)
        a_map = [i for i, st in enumerate(scn["steps"]) if not (i < npre) and st["t"] != "node"]
        for st in c["steps"]:
            st.pop("faults", None)
        c["steps"] = [st if st["t"] != "node" else {"t": "advance", "dt": 0} for st in c["steps"]]
        return a, a_map, c

    def run(self, scn):
        res = engine.execute(scn, ())
        a, a_map, c = self.variants(scn)
        ra = engine.execute(a, ())
        rc = engine.execute(c, ())
        miss = {a_map[r.step]: r for r in ra.calls if r.step >= 0}
        hit = {r.step: r for r in rc.calls if r.step >= 0}
        res.extra["miss"], res.extra["hit"] = miss, hit
        res.violations = self.judge(scn, res)
        res.digest = res.digest + ra.digest[:8] + rc.digest[:8]
        return res

    def judge(self, scn, res):
        out = []
        miss, hit = res.extra["miss"], res.extra["hit"]
        stack = scn["world"]["stack"]
        for rec in res.calls:
            if rec.step < 0:
                continue
            st = scn["steps"][rec.step]
            tag = st.get("tag")
            if rec.method in gen.READS and not tag:
                if rec.outcome == "raise":
                    out.append(viol("read-raised-despite-ignore_exc", rec, exc=type(rec.exc).__name__,
                                    msg=engine._exc_text(rec.exc)[:80], fired=[list(f) for f in rec.fired]))
                    continue
                if "expect_miss_for" in st and not rec.fired:
                    # the item the call asked for is undeserialisable: for that key the answer is the miss value
                    ck_ = codec.dec(st["expect_miss_for"])
                    m = miss.get(rec.step)
                    if m is not None and m.outcome == "return":
                        want, got = m.value, rec.value
                        if isinstance(got, dict) and isinstance(want, dict):
                            if ck_ in got:
                                out.append(viol("failure-result-differs-from-miss", rec, disc="undeserialisable-item",
                                                got=rec.enc_outcome()))
                        elif not model.results_equal(want, got):
                            single = (codec.dec(st["a"][0]) == ck_) if st["a"] else False
                            if single:
                                out.append(viol("failure-result-differs-from-miss", rec, disc="undeserialisable-item",
                                                miss=codec.enc(want), got=rec.enc_outcome()))
                    continue
                if not rec.fired:
                    continue
                m, h = miss.get(rec.step), hit.get(rec.step)
                if m is None or m.outcome != "return":
                    continue
                ok = model.results_equal(m.value, rec.value)
                if not ok and h is not None and h.outcome == "return":
                    ok = model.results_equal(h.value, rec.value)
                    if not ok and stack == "hash" and isinstance(rec.value, dict) and isinstance(h.value, dict):
                        # a hash client may answer with the part that lives on its healthy servers
                        ok = all(k in h.value and model.results_equal(h.value[k], v)
                                 for k, v in rec.value.items())
                if not ok:
                    out.append(viol("failure-result-differs-from-miss", rec,
                                    disc="%s.%s" % (stack, rec.method),
                                    miss=codec.enc(m.value), got=rec.enc_outcome(),
                                    fired=[list(f) for f in rec.fired]))
            elif tag == "warm":
                if rec.outcome == "raise":          # a read under ignore_exc, on servers that are all healthy again
                    out.append(viol("read-raised-despite-ignore_exc", rec, disc="after-recovery",
                                    exc=type(rec.exc).__name__, msg=engine._exc_text(rec.exc)[:80]))
            elif tag == "usable-set":
                if rec.outcome != "return" or rec.value is not True:
                    out.append(viol("client-not-usable-afterwards", rec, got=rec.enc_outcome()))
            elif tag == "usable-get":
                if rec.outcome != "return" or rec.value != b"usable" and \
                        not (scn["world"]["client_kwargs"].get("serde") and rec.value == b"usable"):
                    out.append(viol("client-not-usable-afterwards", rec, got=rec.enc_outcome()))
        out.sort(key=lambda v: v["step"])
        return out

    def probe_names(self):
        return ("all-servers-down", "deserializer-failed", "fault-in-multi-key-read", "partial-hash-result",
                "sentinel-default-returned", "idle-eviction-during-failing-read",
                "reads-walk-server-through-failover-and-revival", "fault-late-in-a-reply-of-hundreds-of-items")

    def probes(self, scn, res):
        p = {}
        nn = len(scn["world"]["nodes"])
        downs = [st for st in scn["steps"] if st["t"] == "node" and st.get("health") != "up"]
        if downs and len(downs) == nn:
            p["all-servers-down"] = 1
        if scn["world"]["client_kwargs"].get("pool_idle_timeout") and downs and \
                any(st["t"] == "advance" and st["dt"] > scn["world"]["client_kwargs"]["pool_idle_timeout"]
                    for st in scn["steps"][:len(scn["steps"]) - 5]):
            p["idle-eviction-during-failing-read"] = 1
        ck = scn["world"]["client_kwargs"]
        if scn["world"]["stack"] == "hash" and downs and ck.get("retry_attempts") and \
                sum(1 for c in res.calls if c.step >= 0 and c.fired and c.method in gen.READS) >= ck["retry_attempts"] + 2:
            p["reads-walk-server-through-failover-and-revival"] = 1
        for c in res.calls:
            if c.fired and c.method in ("get_many", "gets_many") and c.received > 8000:
                p["fault-late-in-a-reply-of-hundreds-of-items"] = 1
            for f in c.fired:
                if f[2] == "deser":
                    p["deserializer-failed"] = 1
                if c.method in ("get_many", "gets_many"):
                    p["fault-in-multi-key-read"] = 1
            if c.fired and isinstance(c.value, dict) and c.value and c.method in ("get_many", "gets_many"):
                p["partial-hash-result"] = 1
            if c.fired and isinstance(c.value, codec.Sentinel):
                p["sentinel-default-returned"] = 1
        return p


PROP = C07()

"""C08 - pooled connections are never shared between threads."""
import copy
import hashlib
import weakref

from .. import engine, gen, codec, sched
from ..world import World
from .base import Prop, viol

E = codec.enc
_base = engine._base
_pool = engine._pool_mod

CLIENT_METHODS = ("set", "set_many", "replace", "append", "prepend", "cas", "get", "gat", "gats", "get_many",
                  "gets", "gets_many", "delete", "delete_many", "add", "incr", "decr", "touch", "stats", "version",
                  "flush_all", "quit", "shutdown", "raw_command")


def _make_rec_client():
    ns = {}

    def wrap(name):
        def method(self, *a, **k):
            run = RecClient._run
            run.enter(self)
            try:
                return getattr(_base.Client, name)(self, *a, **k)
            finally:
                run.exit(self)
        method.__name__ = name
        return method
    for n in CLIENT_METHODS:
        ns[n] = wrap(n)
    ns["_run"] = None
    return type("RecClient", (_base.Client,), ns)


RecClient = _make_rec_client()


class Obj:
    """What the bare ObjectPool workload pools."""
    n = 0

    def __init__(self, run):
        self.id = len(run.objs)
        run.objs.append(self)
        self.closes = 0

    def close(self):
        self.closes += 1


class Run:
    """One threaded execution."""

    def __init__(self, scn):
        self.scn = scn
        self.world = World(scn["world"])
        engine._Cur.world = self.world
        engine._userserde._Cur.world = self.world
        self.res = engine.Result()
        self.res.world = self.world
        self.violations = []
        self.busy = {}        # id(inner client) -> tid inside a public method
        self.holders = {}     # bare pool: obj id -> tid
        self.objs = []
        self.max_size = None
        self.pool = None
        self.sched = None
        self.seen_objs = {}
        self.created_while_idle_available = []

    def v(self, oracle, tid=None, **detail):
        if len(self.violations) < 5:
            self.violations.append({"oracle": oracle, "method": None, "disc": None, "step": self.sched.step,
                                    "detail": dict(detail, thread=tid)})
        self.sched.abort = self.sched.abort or "violation"

    # RecClient callbacks
    def enter(self, client):
        tid = self.world.cur_tid
        cur = self.busy.get(id(client))
        if cur is not None and cur != tid:
            self.v("connection-used-by-two-threads", tid, other=cur)
        self.busy[id(client)] = tid

    def exit(self, client):
        if self.busy.get(id(client)) == self.world.cur_tid:
            del self.busy[id(client)]

    def invariant(self, s, t, kind):
        p = self.pool
        used, free = p.used, p.free
        n = len(used) + len(free)
        if self.max_size is not None and n > self.max_size:
            self.v("pool-over-capacity", t.tid, size=n, max=self.max_size)
        ids = [id(o) for o in used] + [id(o) for o in free]
        if len(set(ids)) != len(ids):
            self.v("connection-listed-twice", t.tid, used=len(used), free=len(free))
        # bookkeeping for C09 under threads (not a C08 verdict): a new pooled object may only be created when no
        # idle one is available (the pool scans all idle ones, discarding those that idled out)
        for o in used:
            if id(o) not in self.seen_objs:
                self.seen_objs[id(o)] = o        # strong reference: a destroyed object's id must not be recycled
                if free:
                    self.created_while_idle_available.append({"step": s.step, "thread": t.tid, "idle": len(free),
                                                              "now": self.world.clock.now})
        for o in free:
            self.seen_objs[id(o)] = o


def build(scn):
    run = Run(scn)
    th = scn["threads"]
    w = run.world
    ref = weakref.ref(run)
    lock_seam = th.get("lock", "generator")

    def mk_lock():
        return sched.SimLock(lambda: (ref() and ref().sched))

    class _ShimThreading:
        @staticmethod
        def Lock():
            return mk_lock()

    _pool.threading = _ShimThreading
    RecClient._run = run
    if th["mode"] == "pooled":
        kw = engine._client_kwargs(w, scn["world"].get("client_kwargs"))
        if lock_seam == "generator":
            kw["lock_generator"] = mk_lock
        server = codec.dec(scn["world"]["servers"][0])
        pc = _base.PooledClient(server, **kw)
        pc.client_class = RecClient
        run.client = pc
        run.res.client = pc
        run.pool = pc.client_pool
        run.max_size = kw.get("max_pool_size")
    else:
        ms = th.get("max_size")
        run.pool = _pool.ObjectPool(lambda: Obj(run), after_remove=lambda o: o.close(), max_size=ms,
                                    idle_timeout=th.get("idle_timeout", 0),
                                    lock_generator=mk_lock if lock_seam == "generator" else None)
        run.max_size = ms
        run.client = None
    return run


def thread_body(run, tid, program):
    w = run.world
    res = run.res
    pool = run.pool

    def body(t):
        held = []
        for i, st in enumerate(program):
            step_no = tid * 100 + i
            m = st["m"]
            if m == "advance":
                w.clock.advance(st["dt"])      # lets pool_idle_timeout elapse between operations
                run.sched.point("ev:advance")
                continue
            if run.client is not None:
                args = [codec.dec(a) for a in st.get("a", ())]
                kwargs = {k: codec.dec(v) for k, v in (st.get("k") or {}).items()}
                fn = (lambda m=m, a=args, k=kwargs: getattr(run.client, m)(*a, **k))
            else:
                fn = (lambda st=st, held=held: pool_op(run, tid, st, held))
            rec = engine.run_call(w, res, step_no, fn, m, st.get("faults"), st.get("net"))
            rec.extra["tid"] = tid
    return body


class _Boom(Exception):
    pass


def pool_op(run, tid, st, held):
    pool = run.pool
    m = st["m"]
    s = run.sched
    if m == "acquire":
        o = pool.get()
        cur = run.holders.get(o.id)
        if cur is not None and cur != tid:
            run.v("object-held-by-two-threads", tid, other=cur, obj=o.id)
        run.holders[o.id] = tid
        held.append(o)
        return o.id
    if m in ("release", "destroy"):
        if not held:
            return None
        o = held.pop(0 if st.get("fifo") else -1)
        if run.holders.get(o.id) == tid:
            del run.holders[o.id]
        getattr(pool, m)(o)
        return o.id
    if m == "clear":
        pool.clear()
        return None
    if m == "use":
        with pool.get_and_release(destroy_on_fail=st.get("destroy_on_fail", False)) as o:
            cur = run.holders.get(o.id)
            if cur is not None and cur != tid:
                run.v("object-held-by-two-threads", tid, other=cur, obj=o.id)
            run.holders[o.id] = tid
            s.point("ev:use")
            s.point("ev:use2")
            if run.holders.get(o.id) == tid:
                del run.holders[o.id]
            if st.get("fail"):
                raise _Boom("sim: scripted failure inside the with-block")
        return o.id
    raise AssertionError(m)


def execute(scn):
    if not sched._registered["codes"]:
        sched.install([_pool.ObjectPool, _base.PooledClient])     # per-instruction events for the pool code
    engine.restore_package_state()
    run = build(scn)
    w = run.world
    th = scn["threads"]
    s = sched.Scheduler(w, th.get("sched"))
    run.sched = s
    w.sched = s
    s.invariant = run.invariant
    for tid, prog in enumerate(th["programs"]):
        s.add(thread_body(run, tid, prog))
    knobs = scn["world"].get("knobs") or {}
    _base.RECV_SIZE = knobs.get("recv_size", engine.DEFAULT_RECV_SIZE)
    try:
        abort = s.run()
    finally:
        _base.RECV_SIZE = engine.DEFAULT_RECV_SIZE
        w.sched = None
    res = run.res
    res.extra["sched"] = s
    res.extra["run"] = run
    for t in s.threads:
        if t.error is not None:
            if isinstance(t.error, engine.HarnessError):
                raise t.error
            raise engine.HarnessError("thread %d died: %r" % (t.tid, t.error)) from t.error
    if abort in ("step-cap", "wall-clock-watchdog"):
        raise engine.HarnessError("threaded run aborted: %s (step %d)" % (abort, s.step))
    out = list(run.violations)
    if abort == "deadlock":
        out.append({"oracle": "deadlock", "method": None, "disc": None, "step": s.step,
                    "detail": {"blocked": [(t.tid, t.state) for t in s.threads]}})
    if not out:
        out.extend(final_checks(run, scn))
    res.violations = out
    # digest: interleaving + outcomes
    h = hashlib.sha256()
    h.update(repr(s.trace).encode())
    h.update(repr(s.switches).encode())
    for c in sorted(res.calls, key=lambda c: c.step):
        h.update(codec.canon(c.enc_outcome()).encode())
    for ev in w.events:
        h.update(repr(ev).encode())
    res.digest = h.hexdigest()
    return res


ALLOWED_EXC = ("RuntimeError:Too many objects",)


def final_checks(run, scn):
    out = []
    w = run.world
    s = run.sched
    MemcacheError = engine.pymemcache.exceptions.MemcacheError
    for rec in run.res.calls:
        if rec.outcome != "raise":
            continue
        e = rec.exc
        if engine._is_sim_exc(e) or isinstance(e, (_Boom, MemcacheError)):
            continue
        if isinstance(e, RuntimeError) and str(e).startswith("Too many objects"):
            continue
        out.append({"oracle": "internal-error-escaped", "method": rec.method, "disc": type(e).__name__,
                    "step": s.step, "detail": {"exc": type(e).__name__, "msg": engine._exc_text(e)[:100],
                                               "thread": rec.extra.get("tid")}})
    pool = run.pool
    s.in_check = True
    try:
        used, free = pool.used, pool.free
    finally:
        s.in_check = False
    if used:
        out.append({"oracle": "connections-left-checked-out", "method": None, "disc": None, "step": s.step,
                    "detail": {"used": len(used)}})
    if run.client is not None:
        idle = set()
        for c in free:
            for sk in engine.client_socket(c):
                idle.add(sk.id)
        for sk in w.sockets:
            if sk.closed:
                if sk.close_calls != 1:
                    out.append({"oracle": "connection-closed-more-than-once", "method": None, "disc": None,
                                "step": s.step, "detail": {"sock": sk.id, "close_calls": sk.close_calls}})
            elif sk.id not in idle:
                out.append({"oracle": "connection-neither-idle-nor-closed", "method": None, "disc": None,
                            "step": s.step, "detail": {"sock": sk.id}})
    else:
        freeids = {o.id for o in free}
        for o in run.objs:
            if o.id in freeids:
                if o.closes:
                    out.append({"oracle": "closed-object-back-in-pool", "method": None, "disc": None,
                                "step": s.step, "detail": {"obj": o.id}})
            elif o.closes != 1 and o.id not in {h.id for h in ()}:
                # objects a thread still holds at the end are not judged (the program kept them)
                if run.holders.get(o.id) is None and not _still_held(run, o):
                    out.append({"oracle": "object-neither-idle-nor-closed-once", "method": None, "disc": None,
                                "step": s.step, "detail": {"obj": o.id, "closes": o.closes}})
    return out[:4]


def _still_held(run, o):
    return False


class C08(Prop):
    id = "C08"
    level = "exploration"
    rule = ("work unit = one seed -> one workload (a PooledClient with max_pool_size in {1,2,3,unbounded} on a "
            "simulated server, or a bare ObjectPool; 2-3 simulated threads each running 1-3 operations from "
            "{succeeding get/set, operation failing by an injected reset, quit, close, pool exhaustion, bare "
            "acquire/release/destroy/clear/use}) explored under many schedules: a complete single-pre-emption sweep "
            "(pre-empt at scheduling point i to thread j, for every point of the non-preempted baseline), seeded "
            "random switching (p in {0.01,0.05,0.2,1}) and PCT schedules (d<=3). Scheduling points: every bytecode "
            "instruction of pymemcache.pool.ObjectPool and PooledClient code, every simulated socket event, every "
            "lock operation. Invariants at every point: no pooled connection inside a public method for two "
            "threads, size <= max_pool_size, nothing listed twice, no deadlock; at the end: nothing checked out, "
            "every socket idle-in-pool or closed exactly once, no internal error escaped. distinct = distinct "
            "sequences of (thread, sync-relevant event); non-trivial = at least one context switch inside a pool "
            "critical region (between a lock acquire and its release).")
    state_measure = "distinct interleavings = distinct sequences of (thread, socket/lock event) across the run"
    components = dict(Prop.components,
                      real=["pymemcache.pool.ObjectPool", "pymemcache.client.base.PooledClient / Client",
                            "real threading.Thread objects, run one at a time"],
                      simulated=Prop.components["simulated"] + ["pool lock (SimLock via lock_generator= and via "
                                "pymemcache.pool.threading)", "thread scheduler (baton passing; sys.monitoring "
                                "INSTRUCTION events as pre-emption points)"],
                      stub=["recording subclass of Client installed through PooledClient.client_class (adds "
                            "entry/exit bookkeeping only)"])
    assumptions = ["pre-emption granularity is one bytecode instruction (the GIL's); free-threaded CPython is out of scope",
                   "C-level operations (deque.append/remove/popleft) are atomic, as under the GIL"]

    def plan(self, tier):
        if tier == "quick":
            return {"units": 160, "budget_s": 90, "block": 2, "selfcheck_every": 211}
        return {"units": 6000, "budget_s": 1700, "block": 4, "selfcheck_every": 211}

    # ---- workloads
    def gen_workload(self, rng):
        nthreads = rng.choice([2, 2, 3])
        if rng.random() < 0.7:
            nodes, servers = gen.node_specs(1)
            ck = {"default_noreply": False, "max_pool_size": rng.choice([1, 2, 3, None]),
                  "timeout": 1}
            if rng.random() < 0.3:
                ck["pool_idle_timeout"] = rng.choice([1, 30])
            if rng.random() < 0.3:
                ck["ignore_exc"] = True
            w = {"stack": "pooled", "servers": servers, "nodes": nodes, "client_kwargs": ck, "knobs": {}}
            progs = []
            for t in range(nthreads):
                prog = []
                for _ in range(rng.randint(1, 3)):
                    m = rng.choice(["get", "set", "get", "set", "fail", "quit", "close", "get_many", "delete"])
                    if m == "get":
                        prog.append({"m": "get", "a": [E(b"k%d" % t)]})
                    elif m == "set":
                        prog.append({"m": "set", "a": [E(b"k%d" % t), E(b"v%d" % t)]})
                    elif m == "get_many":
                        prog.append({"m": "get_many", "a": [E([b"k0", b"k1"])]})
                    elif m == "delete":
                        prog.append({"m": "delete", "a": [E(b"k%d" % t)]})
                    elif m == "fail":
                        fm = rng.choice(["get", "set", "get", "set", "quit"])
                        prog.append({"m": fm, "a": [E(b"f%d" % t)] if fm != "quit" else [],
                                     "faults": [{"at": [rng.choice(["recv", "sendall", "connect"] if fm != "quit"
                                                                   else ["sendall", "connect", "sendall"]), 0],
                                                 "kind": "reset"}]})
                        if prog[-1]["m"] == "set":
                            prog[-1]["a"].append(E(b"x"))
                    elif m == "quit":
                        prog.append({"m": "quit", "a": []})
                    else:
                        prog.append({"m": "close", "a": []})
                    if ck.get("pool_idle_timeout") and rng.random() < 0.4:
                        prog.append({"m": "advance", "dt": rng.choice([0.5, 2, 40])})
                progs.append(prog)
            th = {"mode": "pooled", "programs": progs, "lock": rng.choice(["generator", "threading"])}
        else:
            w = {"nodes": []}
            progs = []
            for t in range(nthreads):
                prog = []
                held = 0
                for _ in range(rng.randint(1, 4)):
                    m = rng.choice(["acquire", "release", "destroy", "use", "use", "clear"])
                    if m in ("release", "destroy") and not held:
                        m = "acquire"
                    if m == "acquire":
                        held += 1
                        prog.append({"m": "acquire"})
                    elif m in ("release", "destroy"):
                        held -= 1
                        prog.append({"m": m, "fifo": rng.random() < 0.5})
                    elif m == "use":
                        prog.append({"m": "use", "destroy_on_fail": rng.random() < 0.5, "fail": rng.random() < 0.4})
                    else:
                        prog.append({"m": "clear"})
                while held:
                    held -= 1
                    prog.append({"m": rng.choice(["release", "destroy"])})
                progs.append(prog)
            th = {"mode": "pool", "programs": progs, "max_size": rng.choice([1, 2, 3, None]),
                  "idle_timeout": rng.choice([0, 0, 5]), "lock": rng.choice(["generator", "threading"])}
        return {"property": self.id, "world": w, "steps": [], "threads": th}

    def gen(self, rng, idx, tier):
        base = self.gen_workload(rng)
        nthreads = len(base["threads"]["programs"])
        out = []
        b = copy.deepcopy(base)
        b["threads"]["sched"] = {"mode": "none"}
        res = execute(b)
        n = res.extra["sched"].step
        out.append(b)
        strategy = rng.random()
        budget = 400 if tier == "quick" else 1200
        if strategy < 0.5:
            # complete single-pre-emption sweep of this workload
            positions = list(range(1, n + 1))
            complete = True
            if len(positions) * (nthreads - 1) > budget:
                positions = sorted(rng.sample(positions, budget // (nthreads - 1)))
                complete = False
            for i in positions:
                for j in range(1, nthreads):
                    v = copy.deepcopy(base)
                    v["threads"]["sched"] = {"mode": "explicit", "switches": [[i, j]]}
                    v["sweep"] = {"complete": complete, "n": n}
                    out.append(v)
            return out
        if strategy < 0.65:
            for _ in range(budget // 2):     # two pre-emptions, positions sampled
                v = copy.deepcopy(base)
                i1 = rng.randint(1, n)
                i2 = rng.randint(i1, n + 20)
                v["threads"]["sched"] = {"mode": "explicit",
                                         "switches": [[i1, rng.randrange(nthreads)], [i2, rng.randrange(nthreads)]]}
                out.append(v)
            return out
        if strategy < 0.85:
            for _ in range(budget // 2):
                v = copy.deepcopy(base)
                v["threads"]["sched"] = {"mode": "random", "seed": rng.getrandbits(32),
                                         "p": rng.choice([0.01, 0.05, 0.2, 1])}
                out.append(v)
            return out
        for _ in range(budget // 2):
            v = copy.deepcopy(base)
            d = rng.choice([1, 2, 3])
            prio = list(range(nthreads))
            rng.shuffle(prio)
            v["threads"]["sched"] = {"mode": "pct", "priorities": prio,
                                     "change_points": sorted(rng.sample(range(1, n + 2), min(d - 1, n)))}
            out.append(v)
        return out

    def run(self, scn):
        return execute(scn)

    # ---- minimisation of thread scenarios: fewer switches, shorter programs
    def shrink_candidates(self, scn):
        return ()

    def minimise(self, scn, sig, same):
        cur = copy.deepcopy(scn)
        # make the schedule explicit first
        res = execute(copy.deepcopy(cur))
        s = res.extra["sched"]
        if cur["threads"]["sched"].get("mode") != "explicit":
            cand = copy.deepcopy(cur)
            cand["threads"]["sched"] = {"mode": "explicit", "switches": [list(x) for x in s.switches]}
            if same(cand):
                cur = cand
        sw = cur["threads"]["sched"].get("switches")
        if sw:
            i = 0
            while i < len(sw):
                cand = copy.deepcopy(cur)
                del cand["threads"]["sched"]["switches"][i]
                if same(cand):
                    cur = cand
                    sw = cur["threads"]["sched"]["switches"]
                else:
                    i += 1
        progs = cur["threads"]["programs"]
        for t in range(len(progs)):
            i = 0
            while i < len(cur["threads"]["programs"][t]):
                cand = copy.deepcopy(cur)
                del cand["threads"]["programs"][t][i]
                if same(cand):
                    cur = cand
                else:
                    i += 1
        return cur

    def size(self, scn):
        th = scn["threads"]
        return sum(len(p) for p in th["programs"]) + len((th.get("sched") or {}).get("switches") or ())

    def trace_key(self, scn, res):
        s = res.extra["sched"]
        # context switch inside a critical region?
        depth = {}
        inside = False
        last = None
        for tid, kind in s.trace:
            if last is not None and tid != last and any(depth.get(x, 0) > 0 for x in depth if x != tid):
                inside = True
            if kind == "lock-acquire":
                depth[tid] = depth.get(tid, 0) + 1
            elif kind == "lock-release":
                depth[tid] = max(depth.get(tid, 0) - 1, 0)
            last = tid
        key = (codec.canon(scn["threads"]["programs"])[:600], tuple(s.trace), tuple(s.switches))
        return key, (inside or len(s.switches) > 0 and s.stats.get("blocked-on-lock", 0) > 0)

    def state_keys(self, scn, res):
        s = res.extra["sched"]
        return (hash(tuple(s.trace)) & 0xFFFFFFFFFFFF,)

    def probe_names(self):
        return ("preempted-inside-critical-region", "thread-blocked-on-pool-lock", "pool-exhausted-legitimately",
                "client-destroyed-while-other-thread-active", "clear-while-connection-checked-out",
                "single-preemption-sweep-complete", "default-threading-lock-path", "three-threads",
                "idle-expiry-under-threads")

    def probes(self, scn, res):
        p = {}
        s = res.extra["sched"]
        if s.stats.get("blocked-on-lock"):
            p["thread-blocked-on-pool-lock"] = 1
            p["preempted-inside-critical-region"] = 1
        for c in res.calls:
            if c.outcome == "raise" and isinstance(c.exc, RuntimeError) and "Too many" in str(c.exc):
                p["pool-exhausted-legitimately"] = 1
        if (scn.get("sweep") or {}).get("complete"):
            p["single-preemption-sweep-complete"] = 1
        if scn["threads"].get("lock") == "threading":
            p["default-threading-lock-path"] = 1
        if len(scn["threads"]["programs"]) == 3:
            p["three-threads"] = 1
        if any(st["m"] == "advance" for pr in scn["threads"]["programs"] for st in pr) and \
                res.world.stats.get("ev:close"):
            p["idle-expiry-under-threads"] = 1
        progs = scn["threads"]["programs"]
        if any(st["m"] in ("close", "clear") for pr in progs for st in pr) and len(s.switches) > 0:
            p["clear-while-connection-checked-out"] = 1
        if any(st.get("faults") or st["m"] in ("quit", "destroy") for pr in progs for st in pr) and s.switches:
            p["client-destroyed-while-other-thread-active"] = 1
        return p

    def sample(self, scn, res):
        s = res.extra["sched"]
        return {"scenario": scn, "steps": s.step, "switches": s.switches[:20],
                "interleaving": s.trace[:60],
                "outcomes": [[c.step, c.method] + c.enc_outcome()[:2] for c in res.calls][:20],
                "violations": res.violations[:3]}


PROP = C08()

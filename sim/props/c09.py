"""C09 - a failed pooled connection is discarded and pool capacity is conserved."""
import copy

from .. import engine, gen, codec
from ..world import TICK
from .base import Prop, viol
from .common import PoolHook, socks_used

E = codec.enc


class C09(Prop):
    id = "C09"
    level = "fault_enumeration"
    rule = ("work unit = one seed -> one single-threaded history of 5-20 calls on a PooledClient (max_pool_size in "
            "{1,2,unbounded}, pool_idle_timeout in {0,5,60}, ignore_exc on/off) with per-call fault choice (none, or "
            "any socket/reply fault at any socket event of the call; half of the units are systematic sweeps over "
            "every event x fault kind of sampled calls) and clock advances below / exactly at / above the idle "
            "timeout. distinct = abstract trace incl. idle-gap class; non-trivial = a fault fired in flight and a "
            "later call followed, or an idle expiry / exact-boundary reuse happened.")
    assumptions = [
        "single caller thread (thread interleavings are C08's subject)",
        "pool state is read through the public client_pool.used / .free attributes at call boundaries",
        "idle gaps are exact multiples of 2^-10 s so 'exactly at the timeout' is exact in floating point",
    ]

    def plan(self, tier):
        if tier == "quick":
            return {"units": 8000, "budget_s": 90, "block": 40}
        return {"units": 360000, "budget_s": 1500, "block": 100}

    def gen(self, rng, idx, tier):
        if idx % 40 == 7:
            return self.gen_threaded(rng)
        if idx % 40 == 23:
            return self.gen_threaded_release(rng)
        nodes, servers = gen.node_specs(1, unix=rng.random() < 0.2)
        idle = rng.choice([0, 5, 60, 0.5, 2.5])
        ck = {"default_noreply": rng.random() < 0.4, "timeout": rng.choice([None, 0.5, 3]),
              "connect_timeout": rng.choice([None, 0.5]), "max_pool_size": rng.choice([None, 1, 2]),
              "pool_idle_timeout": idle, "ignore_exc": rng.random() < 0.4}
        if rng.random() < 0.25:
            ck["no_delay"] = True
        if rng.random() < 0.3:
            ck["key_prefix"] = E(b"p:")
        w = {"stack": "pooled", "servers": servers, "nodes": nodes, "client_kwargs": ck,
             "knobs": {"recv_size": rng.choice(gen.RECV_SIZES)}}
        keys = gen.pick_keys(rng, 3)
        wl = gen.Workload(rng, "pooled", keys, numeric_keys=keys[:1])
        steps = []
        for _ in range(rng.randint(5, 20)):
            st = wl.call()
            net = gen.gen_net(rng, 0.4)
            if rng.random() < 0.25:
                net = net or {}
                net["lat"] = rng.choice([0.5, 2, idle / 2 if idle else 1, idle - 1 if idle else 3])
            if net:
                st["net"] = net
            steps.append(st)
            r = rng.random()
            if r < 0.35:
                if idle and rng.random() < 0.8:
                    dt = rng.choice([idle - TICK, idle - TICK, idle, idle + 1, idle / 2, idle - 1, 3 * idle,
                                     idle - 2 * TICK])
                else:
                    dt = rng.choice([0.25, 1, 7, 100])
                steps.append({"t": "advance", "dt": dt})
        base = {"property": self.id, "world": w, "steps": steps}
        call_steps = [i for i, s in enumerate(steps) if s["t"] == "call"]
        mode = rng.random()
        if mode < 0.1:
            return [base]
        if mode < 0.55:
            res = engine.execute(base, ())
            recs = {c.step: c for c in res.calls}
            chosen = sorted(rng.sample(call_steps[:-1], min(len(call_steps) - 1, rng.randint(1, 2))))
            return [base] + gen.sweep_variants(base, recs, chosen,
                                               ("connect", "sendall", "recv", "close", "socket", "settimeout",
                                                "setsockopt"), rng)
        for _ in range(rng.choice([1, 2, 3, 4])):
            i = rng.choice(call_steps)
            steps[i].setdefault("faults", []).append(gen.random_fault(rng))
        return [base]

    # ---- two connections with different idle ages need two overlapping calls: a small threaded scenario run by
    # the C08 scheduler (explicit schedule: thread 0 is pre-empted inside its first call, thread 1 runs to the end)
    def gen_threaded(self, rng):
        from . import c08
        nodes, servers = gen.node_specs(1)
        idle = rng.choice([10, 2.5, 60])
        ck = {"default_noreply": False, "max_pool_size": rng.choice([None, 2, 3]), "pool_idle_timeout": idle,
              "timeout": 1}
        a1 = rng.choice([idle * 0.6, idle * 0.5 + 0.5])          # thread 1 idles, then thread 0 releases
        a0 = idle - a1 + rng.choice([0.5, 1, idle * 0.3])         # then: older one expired, younger one not
        if a0 > idle:
            a0 = idle * 0.9
        progs = [[{"m": "get", "a": [E(b"k0")]}, {"m": "advance", "dt": a0}, {"m": rng.choice(["get", "set"]),
                                                                               "a": [E(b"k0")]}],
                 [{"m": "get", "a": [E(b"k1")]}, {"m": "advance", "dt": a1}]]
        if progs[0][2]["m"] == "set":
            progs[0][2]["a"].append(E(b"v"))
        w = {"stack": "pooled", "servers": servers, "nodes": nodes, "client_kwargs": ck, "knobs": {}}
        base = {"property": self.id, "world": w, "steps": [],
                "threads": {"mode": "pooled", "programs": progs, "lock": rng.choice(["generator", "threading"]),
                            "sched": {"mode": "none"}}}
        from .. import sched as _sched
        try:
            res = c08.execute(copy.deepcopy(base))
        finally:
            _sched.uninstall()
        s = res.extra["sched"]
        step = next((st for (tid, kind), st in zip(s.trace, s.trace_steps) if tid == 0 and kind == "ev:recv"), None)
        if step is None:
            return []
        base["threads"]["sched"] = {"mode": "explicit", "switches": [[step, 1]]}
        return [base]

    def gen_threaded_release(self, rng):
        """A call that lasts longer than pool_idle_timeout gives its (perfectly fresh) connection back while a
        second caller checks out: pre-emption at every instruction after release() has let go of the pool lock."""
        from . import c08
        from .. import sched as _sched
        nodes, servers = gen.node_specs(1)
        idle = rng.choice([2, 2.5, 10])
        ck = {"default_noreply": False, "max_pool_size": rng.choice([None, 2]), "pool_idle_timeout": idle, "timeout": None}
        progs = [[{"m": "get", "a": [E(b"k0")], "net": {"lat": idle + rng.choice([0.5, 1, 5])}}],
                 [{"m": rng.choice(["get", "set"]), "a": [E(b"k1")]}]]
        if progs[1][0]["m"] == "set":
            progs[1][0]["a"].append(E(b"v"))
        w = {"stack": "pooled", "servers": servers, "nodes": nodes, "client_kwargs": ck, "knobs": {}}
        base = {"property": self.id, "world": w, "steps": [], "no_faults": True,
                "threads": {"mode": "pooled", "programs": progs, "lock": rng.choice(["generator", "threading"]),
                            "sched": {"mode": "none"}}}
        try:
            res = c08.execute(copy.deepcopy(base))
        finally:
            _sched.uninstall()
        s = res.extra["sched"]
        rel = [st for (tid, kind), st in zip(s.trace, s.trace_steps) if tid == 0 and kind == "lock-release"]
        if not rel:
            return []
        out = []
        for off in range(1, 40):
            v = copy.deepcopy(base)
            v["threads"]["sched"] = {"mode": "explicit", "switches": [[rel[-1] + off, 1]]}
            out.append(v)
        return out

    def run(self, scn):
        if "threads" not in scn:
            return Prop.run(self, scn)
        from . import c08
        from .. import sched as _sched
        try:
            res = c08.execute(scn)
        finally:
            _sched.uninstall()       # the sequential scenarios of this check run without instruction events
        run = res.extra["run"]
        out = []
        if not res.violations:       # (C08's own verdicts are C08's business)
            for d in run.created_while_idle_available[:1]:
                out.append({"oracle": "healthy-connection-not-reused", "method": None, "disc": "threads",
                            "step": d["step"], "detail": d})
            # the scenario ends with a checkout: whatever had idled out by then is closed by then (the pool scans
            # its idle connections from the oldest)
            w = res.world
            idle = scn["world"]["client_kwargs"].get("pool_idle_timeout", 0)
            if idle and not out and scn.get("no_faults"):
                # nothing failed in this scenario: a connection closed within pool_idle_timeout of its last use was
                # a healthy, fresh one ("a healthy one is reused rather than reopened")
                for sk in w.sockets:
                    if sk.closed and sk.last_io is not None and sk.closed_at - sk.last_io <= idle:
                        out.append({"oracle": "healthy-connection-not-reused", "method": None,
                                    "disc": "closed-while-fresh", "step": res.extra["sched"].step,
                                    "detail": {"sock": sk.id, "idle_for": sk.closed_at - sk.last_io, "timeout": idle}})
                        break
            if idle and not out:
                for sk in w.sockets:
                    if not sk.closed and sk.last_io is not None and w.clock.now - sk.last_io > idle:
                        out.append({"oracle": "idle-expired-connection-not-closed", "method": None, "disc": "threads",
                                    "step": res.extra["sched"].step,
                                    "detail": {"sock": sk.id, "idle_for": w.clock.now - sk.last_io, "timeout": idle}})
                        break
        res.violations = out
        return res

    def hooks(self, scn):
        from .c06 import LedgerHook
        return (PoolHook(), LedgerHook())

    def judge(self, scn, res):
        out = []
        w = res.world
        ck = scn["world"]["client_kwargs"]
        idle = ck.get("pool_idle_timeout", 0)
        calls = [c for c in res.calls if c.step >= 0]
        prev = None
        for rec in calls:
            used_socks = socks_used(w, rec)
            # (a) nothing stays checked out
            if rec.extra.get("pool_used"):
                out.append(viol("pool-slot-lost", rec, used=rec.extra["pool_used"]))
            if rec.outcome == "raise" and isinstance(rec.exc, RuntimeError):
                out.append(viol("pool-exhausted", rec, err=engine._exc_text(rec.exc)[:80]))
            # (b0) a socket opened for this call and then given up (e.g. during connection establishment) is closed,
            # not left open where neither the client nor the pool can reach it
            if rec.extra.get("leaked"):
                out.append(viol("failed-connection-kept", rec, disc="unreachable", socks=rec.extra["leaked"][:4]))
            # (b) a socket that failed during this call is closed by the end of it ...
            for sid in used_socks:
                s = w.sockets[sid]
                if s.failed_call == rec.id and not s.closed:
                    # closed later? then it was open while pooled: report at this call
                    out.append(viol("failed-connection-kept", rec, sock=sid))
            if rec.outcome == "raise" and not isinstance(rec.exc, RuntimeError):
                for sid in used_socks:
                    if not w.sockets[sid].closed_by_seq(w.events[rec.ev1 - 1][0] if rec.ev1 else 0):
                        out.append(viol("connection-of-failed-call-kept", rec, sock=sid,
                                        exc=type(rec.exc).__name__))
            # a read whose reply was an error line failed too, even when ignore_exc turns that into a miss
            if rec.outcome == "return" and rec.method in ("get", "gets", "get_many", "gets_many", "gat", "gats") and \
                    any(f[0] == "reply" and f[2] == "errline" for f in rec.fired):
                for sid in used_socks:
                    if not w.sockets[sid].closed_by_seq(w.events[rec.ev1 - 1][0] if rec.ev1 else 0):
                        out.append(viol("connection-of-failed-call-kept", rec, disc="swallowed", sock=sid))
            # likewise a counter operation answered with a line that is neither a number nor NOT_FOUND (or with an
            # error line) has failed, whatever the call then hands back to its caller
            if rec.outcome == "return" and rec.method in ("incr", "decr") and rec.received:
                st_ = scn["steps"][rec.step]
                bad_reply = False
                for f in rec.fired:
                    if f[0] != "reply" or f[1] != 0:
                        continue
                    spec = next((x for x in st_.get("faults", ()) if x["at"] == ["reply", 0]), None)
                    if f[2] == "errline":
                        bad_reply = True
                    elif f[2] == "garbage" and spec is not None:
                        from ..world import GARBAGE_LINES
                        line = GARBAGE_LINES[spec.get("v", 0) % len(GARBAGE_LINES)].strip()
                        bad_reply = not line.isdigit() and line != b"NOT_FOUND"
                if bad_reply:
                    for sid in used_socks:
                        if not w.sockets[sid].closed_by_seq(w.events[rec.ev1 - 1][0] if rec.ev1 else 0):
                            out.append(viol("connection-of-failed-call-kept", rec, disc="swallowed-counter", sock=sid))
            # ... and never carries a later command
            for sid in socks_used(w, rec, ("sendall",)):
                s = w.sockets[sid]
                if s.failed_call is not None and s.failed_call < rec.id:
                    out.append(viol("failed-connection-reused", rec, sock=sid))
            # (c) reuse of a healthy connection / idle expiry
            if prev is not None:
                p, p_socks, p_end = prev
                gap = rec.t0 - p_end
                healthy = (p.outcome == "return" and not p.fired and p.method not in ("quit", "shutdown")
                           and len(p_socks) == 1 and not p_was_closed(w, p_socks[0], p))
                if healthy:
                    sid = p_socks[0]
                    new_socket = rec.kinds.get("socket", 0) > 0
                    cmd_socks = socks_used(w, rec, ("sendall",))
                    if idle == 0 or gap <= idle:
                        if new_socket or (cmd_socks and cmd_socks != [sid]):
                            out.append(viol("healthy-connection-not-reused", rec, gap=gap, idle=idle,
                                            prev_sock=sid, used=cmd_socks))
                    else:
                        if sid in cmd_socks:
                            out.append(viol("idle-expired-connection-reused", rec, gap=gap, idle=idle, sock=sid))
                        elif not w.sockets[sid].closed:
                            out.append(viol("idle-expired-connection-not-closed", rec, gap=gap, idle=idle,
                                            sock=sid))
            prev = (rec, used_socks, rec.t1)
        out.sort(key=lambda v: v["step"])
        return out

    def trace_key(self, scn, res):
        if "threads" in scn:
            s = res.extra["sched"]
            return ("threads", codec.canon(scn["threads"]["programs"]), tuple(s.trace)), True
        key, nt = Prop.trace_key(self, scn, res)
        idle = scn["world"]["client_kwargs"].get("pool_idle_timeout", 0)
        gaps = []
        calls = [c for c in res.calls if c.step >= 0]
        for a, b in zip(calls, calls[1:]):
            g = b.t0 - a.t1
            gaps.append(0 if not idle else (1 if g < idle else (2 if g == idle else 3)))
        return (key, idle, tuple(gaps)), (nt or 2 in gaps or 3 in gaps)

    def probe_names(self):
        return ("idle-expiry-fired", "reuse-exactly-at-timeout", "reuse-below-timeout", "slow-call-then-reuse",
                "failure-then-success-maxsize1", "destroyed-after-fault",
                "two-idle-connections-older-one-expired")

    def probes(self, scn, res):
        p = {}
        if "threads" in scn:
            if res.world.stats.get("ev:close"):
                p["two-idle-connections-older-one-expired"] = 1
            return p
        ck = scn["world"]["client_kwargs"]
        idle = ck.get("pool_idle_timeout", 0)
        calls = [c for c in res.calls if c.step >= 0]
        for a, b in zip(calls, calls[1:]):
            g = b.t0 - a.t1
            if idle and a.outcome == "return" and not a.fired:
                if g > idle and b.kinds.get("close"):
                    p["idle-expiry-fired"] = 1
                elif g == idle and not b.kinds.get("socket"):
                    p["reuse-exactly-at-timeout"] = 1
                elif g < idle and not b.kinds.get("socket"):
                    p["reuse-below-timeout"] = 1
                    if b.t0 - a.t0 > idle:
                        p["slow-call-then-reuse"] = 1
            if a.fired and a.outcome == "raise":
                p["destroyed-after-fault"] = 1
                if ck.get("max_pool_size") == 1 and b.outcome == "return" and not b.fired:
                    p["failure-then-success-maxsize1"] = 1
        return p


def p_was_closed(w, sid, rec):
    return w.sockets[sid].closed_by_seq(w.events[rec.ev1 - 1][0] if rec.ev1 else 0)


PROP = C09()

"""C10 - asynchronous interruption cannot desynchronise a client or leak a pool slot."""
import copy

from .. import engine, gen, codec
from .base import Prop, viol, ownership_violations
from .c01 import C01, SnapshotHook, make_cfg, check_result, gen_world
from .common import PoolHook

E = codec.enc
EXCS = ("KeyboardInterrupt", "SystemExit", "SimInterrupt")
EVENTS = ("getaddrinfo", "socket", "setsockopt", "settimeout", "connect", "sendall", "recv", "close")


class C10(C01):
    id = "C10"
    level = "fault_enumeration"
    rule = ("work unit = one seed -> one fault-free base history (C01 workload on Client / PooledClient(max 1,2) / "
            "HashClient), then one variant per (chosen call, socket event of that call, exception class in "
            "{KeyboardInterrupt, SystemExit, BaseException subclass}) with the exception raised from inside that "
            "socket call (for sendall both before and after the bytes left); the harness catches it at the call "
            "boundary and continues with the remaining and 3-6 further fault-free calls. distinct = abstract trace; "
            "non-trivial = interrupt fired with a request in flight and further calls followed.")
    assumptions = C01.assumptions + [
        "an asynchronous exception surfaces from inside a socket-module call (signal handler / gevent timeout), "
        "which is where the simulator raises it; interruption between two pure-Python bytecodes is not sampled"]

    def plan(self, tier):
        if tier == "quick":
            return {"units": 2500, "budget_s": 90, "block": 20}
        return {"units": 120000, "budget_s": 1500, "block": 40}

    def gen(self, rng, idx, tier):
        base, npre = self.gen_base(rng)
        w = base["world"]
        if w["stack"] == "pooled" or w["client_kwargs"].get("use_pooling"):
            w["client_kwargs"]["max_pool_size"] = rng.choice([1, 2])
        wl = gen.Workload(rng, w["stack"], gen.pick_keys(rng, 3), noreply_mix=True)
        for _ in range(rng.randint(3, 6)):
            base["steps"].append(wl.call(rng.choice(["set", "get", "delete", "incr", "touch", "add", "gets",
                                                     "get_many", "set_many", "version"
                                                     if w["stack"] != "hash" else "get"])))
            if rng.random() < 0.12:
                # calls whose only (or last) socket call is a close()
                base["steps"].append(wl.call("quit") if rng.random() < 0.5 else
                                     {"t": "call", "m": "close", "a": [], "k": {}})
        imax = None
        for nd in w["nodes"]:
            imax = (nd.get("opts") or {}).get("item_max", imax)
        if imax and rng.random() < 0.5:
            # a multi-key store one item of which (not the last) the server refuses as too large: an error line among
            # the replies, with replies of later items still to come
            ks = gen.pick_keys(rng, 3)
            pos = rng.randrange(max(npre, 1), len(base["steps"]) - 1)
            base["steps"].insert(pos, {"t": "call", "m": "set_many",
                                       "a": [E({ks[0]: b"s", ks[1]: b"B" * (imax + 50), ks[2]: b"t"})],
                                       "k": {"noreply": False}, "tag": "refused-item"})
        if w["stack"] != "client" and rng.random() < 0.4:
            # a call that is rejected before any I/O while the pooled connection is open: the pool then discards
            # a perfectly healthy connection, and the only socket call of that operation is the close()
            pos = rng.randrange(max(npre, 1), len(base["steps"]) - 2)
            bad = rng.choice([{"m": "set", "a": [E(b"bad key"), E(b"v")], "k": {}},
                              {"m": "incr", "a": [E(b"k1"), E("x")], "k": {}},
                              {"m": "touch", "a": [E(b"k1")], "k": {"expire": E("soon")}},
                              {"m": "get", "a": [E(b"x" * 300)], "k": {}}])
            base["steps"].insert(pos, dict(bad, t="call", tag="rejected-input"))
        special = rng.random()
        ck = w["client_kwargs"]
        if special < 0.12 and "serde" not in ck:
            # a deserializer that rejects one value of a multi-value reply: the call fails half-way through its reply;
            # interruptions are placed at every receive position, also past the last one made on this tree
            ck["serde"] = {"$serde": {"kind": "faildeser", "inner": None}}
            ks = gen.pick_keys(rng, 3)
            pos = rng.randrange(max(npre, 1), len(base["steps"]) - 2)
            base["steps"].insert(pos, {"t": "call", "m": "get_many", "a": [E(ks)], "k": {}, "tag": "deser-target"})
            base["steps"].insert(pos, {"t": "call", "m": "set_many", "a": [E({k_: b"old-" + bytes([65 + j]) * (1 + 9 * j)
                                                                               for j, k_ in enumerate(ks)})],
                                       "k": {"noreply": False}})
        elif special < 0.24 and ck.get("serde", {}).get("$serde", {}).get("kind", "pickle") == "pickle":
            # a value that itself begins with the bytes END CR LF, delivered so that one receive ends exactly behind
            # those five bytes: what the client holds at that moment looks like the end of a reply and is not
            pfx = codec.dec(ck.get("key_prefix", E(b"")))
            pfx = pfx.encode() if isinstance(pfx, str) else pfx
            val = b"END\r\n" + rng.choice([b"WRONG\r\nEND\r\n", b"VALUE k2 0 1\r\nZ", b"tail", b"x" * 70])
            hdr = len(b"VALUE " + pfx + b"endkey 0 %d\r\n" % len(val))
            pos = rng.randrange(max(npre, 1), len(base["steps"]) - 2)
            m = rng.choice(["get", "get_many"])
            base["steps"].insert(pos, {"t": "call", "m": m, "a": [E(b"endkey" if m == "get" else [b"endkey"])], "k": {},
                                       "net": {"seg": [hdr + 5, 0]}, "tag": "end-value"})
            base["steps"].insert(pos, {"t": "call", "m": "set", "a": [E(b"endkey"), E(val)], "k": {"noreply": False}})
            w["knobs"]["recv_size"] = 4096
        call_steps = [i for i, s in enumerate(base["steps"]) if s["t"] == "call" and i >= npre]
        res = engine.execute(base, ())
        recs = {c.step: c for c in res.calls}
        chosen = sorted(rng.sample(call_steps[:-3], min(len(call_steps) - 3, rng.randint(1, 2))))
        for i in call_steps[:-3]:
            if base["steps"][i].get("tag") in ("rejected-input", "refused-item", "deser-target", "end-value") \
                    and i not in chosen:
                chosen.append(i)
        out = []
        for i in chosen:
            rec = recs.get(i)
            if rec is None:
                continue
            for ek in EVENTS:
                cnt = rec.kinds.get(ek, 0)
                positions = list(range(cnt)) if cnt <= 3 else sorted({0, 1, cnt - 1, rng.randrange(cnt)})
                if ek == "recv" and cnt and base["steps"][i].get("tag") == "deser-target":
                    positions = list(range(min(cnt, 6))) + [cnt - 1]
                if ek == "recv" and cnt:
                    # ... and one / two past the last receive the call makes on this tree: harmless here (the fault
                    # never fires), but a variant of the code that reads on lands in it
                    positions = positions + [cnt, cnt + 1]
                for n in positions:
                    for exc in EXCS:
                        whens = ("before", "after", "partial", "partial") if ek == "sendall" else ("before",)
                        for when in whens:
                            v = copy.deepcopy(base)
                            f = {"at": [ek, n], "kind": "interrupt", "exc": exc, "when": when}
                            if when == "partial":      # part of the request left before the interruption
                                f["sent"] = rng.choice([1, 2, 5, 9, 14, 20, 40])
                            v["steps"][i]["faults"] = [f]
                            if v["steps"][i].get("tag") == "deser-target":
                                if ek != "recv":
                                    continue
                                v["steps"][i]["faults"] = [{"at": ["deser", rng.choice([0, 0, 1])], "kind": "deser"}, f]
                            out.append(v)
        # two interruptions in one history: the clean-up after the first one must not disable the clean-up after
        # the second (the second lands in a later call's first receive or send)
        for v in rng.sample(out, min(len(out), max(1, len(out) // 8))):
            first = next(i for i, st in enumerate(v["steps"]) if st.get("faults"))
            later = [j for j in call_steps[:-3] if j > first]
            if not later:
                continue
            j = rng.choice(later)
            v2 = copy.deepcopy(v)
            v2["steps"][j]["faults"] = [{"at": [rng.choice(["recv", "recv", "sendall"]), 0], "kind": "interrupt",
                                         "exc": rng.choice(EXCS), "when": rng.choice(["before", "after"])}]
            out.append(v2)
        return out or [base]

    def hooks(self, scn):
        return (SnapshotHook(None), PoolHook())

    def judge(self, scn, res):
        out = ownership_violations(res)
        calls_by_id = {c.id: c for c in res.calls}
        for o in res.world.obs:
            if o["oracle"] == "malformed-request":
                # every request of this workload is well-formed, so the server can only see a malformed one if the
                # client garbled it on the wire (e.g. re-sent part of a request on the same connection)
                rec = calls_by_id.get(o["call"])
                out.append(viol("request-garbled-on-the-wire", rec, disc=o.get("why"), line=repr(o.get("line"))[:80]))
        cfg = make_cfg(scn)
        ign = bool((scn["world"].get("client_kwargs") or {}).get("ignore_exc"))
        interrupted = False
        for rec in res.calls:
            if rec.step < 0:
                continue
            if rec.extra.get("pool_used"):
                out.append(viol("pool-slot-lost", rec, used=rec.extra["pool_used"],
                                interrupted=bool(rec.fired)))
            if rec.outcome == "raise" and isinstance(rec.exc, RuntimeError):
                out.append(viol("pool-exhausted", rec, err=engine._exc_text(rec.exc)))
            if rec.fired:
                interrupted = True
                continue
            if scn["steps"][rec.step].get("tag") == "rejected-input":
                continue       # what a rejected argument returns or raises is not this property's business
            d = check_result(cfg, res.world, rec, scn["steps"][rec.step], ignore_exc=ign)
            if d is not None:
                out.append(viol("result-not-from-own-reply", rec, after_interrupt=interrupted, **d))
        out.sort(key=lambda v: (v["step"] if v["step"] is not None else -1))
        return out

    def probe_names(self):
        return ("interrupt-in-recv", "interrupt-in-sendall-after", "interrupt-after-partial-send", "interrupt-in-connect",
                "interrupt-pooled", "calls-after-interrupt", "interrupt-in-close-while-pool-discards-a-healthy-connection")

    def probes(self, scn, res):
        p = {}
        seen = False
        for c in res.calls:
            if seen and c.step >= 0:
                p["calls-after-interrupt"] = p.get("calls-after-interrupt", 0) + 1
            for f in c.fired:
                if f[2] == "interrupt":
                    seen = True
                    if f[0] == "recv":
                        p["interrupt-in-recv"] = 1
                    if f[0] == "connect":
                        p["interrupt-in-connect"] = 1
                    if f[0] == "close" and c.step >= 0 and scn["steps"][c.step].get("tag") == "rejected-input":
                        p["interrupt-in-close-while-pool-discards-a-healthy-connection"] = 1
                    if scn["world"]["stack"] != "client":
                        p["interrupt-pooled"] = 1
            st = scn["steps"][c.step] if c.step >= 0 else {}
            for f in st.get("faults", ()):
                if f.get("when") == "after" and c.fired:
                    p["interrupt-in-sendall-after"] = 1
                if f.get("when") == "partial" and c.fired:
                    p["interrupt-after-partial-send"] = 1
        return p


PROP = C10()

"""C12 - HashClient single-key and multi-key operations agree on where a key lives."""
from .. import engine, gen, codec, model, refhash
from .base import Prop, viol
from .c05 import LockstepHook
from .c01 import make_cfg

E = codec.enc


def split_pair(k):
    if isinstance(k, tuple) and len(k) == 2:
        return k[0], k[1]
    return k, k


def strip_pairs(method, args):
    """Replace (server_key, key) pairs by the key part, as the results are keyed."""
    if not args:
        return args
    a0 = args[0]
    if method in ("set_many",):
        a0 = {split_pair(k)[1]: v for k, v in a0.items()}
    elif method in ("get_many", "gets_many", "delete_many"):
        a0 = [split_pair(k)[1] for k in a0]
    else:
        a0 = split_pair(a0)[1]
    return [a0] + list(args[1:])


HASH_DEFAULTS = {"set": False, "add": False, "replace": False, "append": False, "prepend": False, "delete": False,
                 "touch": False, "cas": False, "incr": None, "decr": None}


class HashLockstep(LockstepHook):
    """Lock-step model for a HashClient cluster: one abstract map, compared per key with the key's owner
    server; knows about rotation changes (add_server) and about keys for which nothing was sent
    (server in its retry window)."""

    def __init__(self, scn, start_step=0):
        LockstepHook.__init__(self, scn, "hash")
        self.start_step = start_step
        self.started = start_step == 0
        w = scn["world"]
        self.names = [refhash.node_name(codec.dec(x)) for x in w["servers"]]
        self.nid_of = {}
        self.rk_of = {}
        self.rotation_changed = False
        ck = w["client_kwargs"]
        self.prefix = codec.dec(ck.get("key_prefix", E(b"")))
        if isinstance(self.prefix, str):
            self.prefix = self.prefix.encode()
        self.spec_nodes = w["nodes"]
        self.errors_become_defaults = bool(ck.get("ignore_exc"))
        for i, n in enumerate(w["nodes"][:len(self.names)]):
            self.nid_of[self.names[i]] = n["id"]

    def wk(self, k):
        return self.prefix + (k.encode("utf8") if isinstance(k, str) else k)

    def on_step(self, world, res, i, st):
        if self.started:
            LockstepHook.on_step(self, world, res, i, st)

    def note_keys(self, method, args):
        a0 = args[0] if args else None
        if method == "set_many":
            ks = list(a0.keys())
        elif method in ("get_many", "gets_many", "delete_many"):
            ks = list(a0)
        elif method == "add_server" or a0 is None:
            ks = []
        else:
            ks = [a0]
        out = []
        for ck_ in ks:
            rk, k = split_pair(ck_)
            self.rk_of[self.wk(k)] = rk
            out.append((rk, k))
        return out

    def after_call(self, world, res, rec):
        if rec.step < 0 or self.scn["steps"][rec.step].get("by") is not None:
            return
        args, kwargs = res.extra["args"][rec.step]
        if rec.method == "add_server":
            if rec.outcome == "return":
                old = list(self.names)
                spec = args[0]
                name = refhash.node_name(spec)
                if name not in self.names:
                    self.names.append(name)
                    for n in self.spec_nodes:
                        if ("path" in n and n["path"] == name) or \
                                ("addrs" in n and "%s:%s" % (n["addrs"][0][0], n["addrs"][0][1]) == name):
                            self.nid_of[name] = n["id"]
                    self.rotation_changed = True
                    # keys whose owner changed are lost from the client's point of view
                    if self.model is not None:
                        for wk in list(self.model.items):
                            rk = self.rk_of.get(wk)
                            if rk is None or refhash.owner(old, rk) != refhash.owner(self.names, rk):
                                del self.model.items[wk]
            return
        if not self.started:
            if rec.step >= self.start_step:
                self.started = True        # a "wipe" step preceded: every server (and the model) starts empty
                self._m(world)
            else:
                self.note_keys(rec.method, args)
                return
        pairs = self.note_keys(rec.method, args)
        sent = {c[2] for c in rec.commands if c[2] is not None}
        unsent = [k for rk, k in pairs if self.wk(k) not in sent]
        stripped = strip_pairs(rec.method, args)
        if rec.outcome == "raise" and (isinstance(rec.exc, OSError) or
                                       type(rec.exc).__name__ == "MemcacheUnexpectedCloseError"):
            # a connection failure surfaced: no result to compare, but what did reach a server took effect
            keep = [k for rk, k in pairs if self.wk(k) in sent]
            if keep and rec.method == "set_many":
                self._m(world).apply("set_many", [{k: v for k, v in stripped[0].items() if k in keep}] + stripped[1:],
                                     kwargs)
            elif keep and rec.method == "delete_many":
                self._m(world).apply("delete_many", [keep] + stripped[1:], kwargs)
            return
        if unsent:
            # the owning server is in its retry window: nothing was sent for these keys
            m = rec.method
            keep = [k for rk, k in pairs if self.wk(k) in sent]
            if m == "set_many":
                sub = {k: v for k, v in stripped[0].items() if k in keep}
                exp = self._m(world).apply(m, [sub] + stripped[1:], kwargs) if sub else ("return", [])
                want = set(map(repr, (exp[1] if exp[0] == "return" else []))) | set(map(repr, unsent))
                got = set(map(repr, rec.value)) if rec.outcome == "return" and rec.value is not None else None
                if got is None or not want <= got or not got <= want | set(map(repr, keep)) or \
                        any(repr(k) not in got for k in unsent):
                    self.mismatch.append(("unsent-keys-not-reported-as-failed", rec,
                                          {"unsent": [repr(k) for k in unsent][:5], "got": rec.enc_outcome()}))
            elif m in ("get_many", "gets_many", "delete_many"):
                res.extra["args"][rec.step] = ([keep] + stripped[1:], kwargs)
                try:
                    LockstepHook.after_call(self, world, res, rec)
                finally:
                    res.extra["args"][rec.step] = (args, kwargs)
            else:
                if m in HASH_DEFAULTS:
                    want = HASH_DEFAULTS[m]
                elif m in ("get", "gat"):
                    want = kwargs.get("default")
                else:
                    want = (kwargs.get("default"), kwargs.get("cas_default"))
                if rec.outcome != "return" or not model.results_equal(want, rec.value):
                    self.mismatch.append(("unsent-call-did-not-return-its-default", rec,
                                          {"want": repr(want), "got": rec.enc_outcome()}))
            return
        res.extra["args"][rec.step] = (stripped, kwargs)
        try:
            LockstepHook.after_call(self, world, res, rec)
        finally:
            res.extra["args"][rec.step] = (args, kwargs)

    def state_diff(self, world, m):
        """Per key: the model's item must equal what the key's owner holds; servers may keep stale copies of
        keys they no longer own."""
        mv = m.visible()
        diff = {}
        snaps = {nid: n.snapshot() for nid, n in world.nodes.items()}
        up_names = [n for n in self.names]
        for wk, item in mv.items():
            rk = self.rk_of.get(wk)
            if rk is None:
                continue
            holders = [nid for nid, sn in snaps.items() if wk in sn and (sn[wk][0], sn[wk][1], sn[wk][2]) == item]
            if not holders:
                diff[repr(wk)] = [repr(item)[:80], "no server holds this item"]
        if not self.rotation_changed and self.start_step == 0:
            for nid, sn in snaps.items():
                for wk in sn:
                    if wk not in mv:
                        diff[repr(wk)] = ["absent in model", "held by server %s" % nid]
        return diff or None


class C12(Prop):
    id = "C12"
    level = "exploration"
    rule = ("work unit = one seed -> a HashClient over 1-5 simulated servers (given as tuples, 'host:port' strings, "
            "UNIX paths; pooled or not; with key prefix) and a history of 5-25 key-addressed operations over a key "
            "set of up to 50 keys (str and bytes, some as (server_key, key) pairs): every single-key operation and "
            "set_many / get_many / gets_many / delete_many, interleaved so that keys written singly are read by "
            "multi-key calls and vice versa; a quarter of the units first make a server fail and then run the workload "
            "either on the rotation reduced by its eviction or while it sits in its retry window (nothing may be sent "
            "for its keys and set_many must report them as failed); a third of the fault-free units add servers at run "
            "time (add_server) in mid-history; an eighth of the fault-free units have a second, unrelated HashClient "
            "in the same process whose own server fails, is evicted and becomes due for revival (placement of the "
            "client under test must not notice). Oracle: per-server command logs versus an independent "
            "reference placement (rendezvous over a from-the-C-source MurmurHash3): every command for key k at "
            "owner(k) only, each key of a multi-key call exactly once; plus a single abstract map stepped in "
            "lock-step (results and union of server stores). distinct = (server-set shape, op/arity sequence, number "
            "of servers touched per multi-key call); non-trivial = at least one multi-key call spanning >= 2 servers "
            "and one single-key call on a key written by a multi-key call or vice versa.")
    assumptions = ["fault-free in the main batch; keys restricted to code points < 256 so the reference hash is "
                   "the published MurmurHash3_x86_32 (C11/C14 are not claimed)"]

    def plan(self, tier):
        if tier == "quick":
            return {"units": 24000, "budget_s": 90, "block": 150}
        return {"units": 1200000, "budget_s": 1500, "block": 400}

    def gen(self, rng, idx, tier):
        nn = rng.randint(1, 5)
        nodes, servers = [], []
        for i in range(nn):
            form = rng.choice(["tuple", "tuple", "hostport", "unix", "unixcolon"])
            spec = {"id": i}
            if form in ("unix", "unixcolon"):
                path = "/var/run/memcached/m%d.sock" % i
                spec["path"] = path
                servers.append(E(path if form == "unix" else "unix:" + path))
            else:
                ip = "10.%d.0.%d" % (rng.randint(0, 3), i + 1)
                port = rng.choice([11211, 11211, 11212 + i])
                spec["addrs"] = [[ip, port]]
                servers.append(E((ip, port)) if form == "tuple" else
                               (E("%s:%d" % (ip, port)) if port != 11211 or rng.random() < 0.5 else E(ip)))
            nodes.append(spec)
        ck = {"default_noreply": rng.random() < 0.3}
        if rng.random() < 0.4:
            ck["key_prefix"] = E(rng.choice([b"p:", b"tenant/42/", "sp-"]))
        if rng.random() < 0.4:
            ck["use_pooling"] = True
            ck["max_pool_size"] = rng.choice([None, 2])
        degraded = nn >= 2 and rng.random() < 0.25
        flavour = rng.choice(["evicted", "backoff", "failing", "revival"]) if degraded else None
        ck["retry_attempts"] = rng.choice([0, 1, 2]) if flavour != "backoff" else rng.choice([1, 2])
        if degraded and rng.random() < 0.5:
            ck["ignore_exc"] = True
        spares = []
        if not degraded and rng.random() < 0.3:
            for j in range(rng.randint(1, 2)):
                i = nn + j
                if rng.random() < 0.3:
                    spec = {"id": i, "path": "/var/run/memcached/spare%d.sock" % i}
                    spares.append(spec["path"])
                else:
                    spec = {"id": i, "addrs": [["10.7.0.%d" % (i + 1), 11211]]}
                    spares.append(("10.7.0.%d" % (i + 1), 11211))
                nodes.append(spec)
        ck["retry_timeout"], ck["dead_timeout"] = 1, 600
        w = {"stack": "hash", "servers": servers, "nodes": nodes, "client_kwargs": ck,
             "knobs": {"recv_size": rng.choice(gen.RECV_SIZES)}}
        bystander = None
        if not degraded and not spares and rng.random() < 0.12:
            # a second, unrelated HashClient lives in the same process: its own server (not one of ours) fails,
            # is evicted there and becomes due for revival there - none of which is any business of the client
            # under test, whose placement must not notice
            bid = len(nodes)
            nodes.append({"id": bid, "addrs": [["10.9.9.%d" % (bid + 1), 11211]]})
            bystander = {"node": bid, "retry_attempts": rng.choice([0, 0, 1]),
                         "at": rng.choice([0, 0, 1, 3]), "dt": rng.choice([601, 700, 61])}
            w["bystanders"] = [{"stack": "hash", "servers": [E(("10.9.9.%d" % (bid + 1), 11211))],
                                "client_kwargs": {"retry_attempts": bystander["retry_attempts"], "retry_timeout": 1,
                                                  "dead_timeout": 60, "ignore_exc": True}}]
        nkeys = rng.choice([1, 2, 3, 5, 8, 20, 50])
        keys = []
        for j in range(nkeys):
            base = rng.choice([b"k%d" % j, "s%d" % j, b"user:%d:profile" % j, "\xe9l\xe9ment%d" % j
                               if False else "item-%d" % j, bytes([0x80 + j % 100]) + b"%d" % j])
            if rng.random() < 0.2:
                sk = rng.choice([b"shard%d" % (j % 3), "group%d" % (j % 2)])
                keys.append((sk, base))
            else:
                keys.append(base)
        names = [refhash.node_name(codec.dec(s)) for s in servers]
        steps = []
        start = 0
        vname = None
        if degraded:
            victim = rng.randrange(nn)
            vname = names[victim]
            owned = [k for k in keys if refhash.owner(names, split_pair(k)[0]) == vname]
            if owned:
                steps.append({"t": "node", "id": victim, "health": rng.choice(["refuse", "connect_timeout", "reset", "eof",
                                                                                    "blackhole"])})
                if flavour == "failing":
                    pass      # the workload itself meets the failing server: first failure, retry window, eviction
                elif flavour == "revival":
                    ck["dead_timeout"] = 60
                    for _ in range(ck["retry_attempts"] + 3):
                        steps.append({"t": "call", "m": "set", "a": [E(rng.choice(owned)), E(b"pre")],
                                      "k": {"noreply": False}, "tag": "preamble"})
                        steps.append({"t": "advance", "dt": 1.5})
                    steps.append({"t": "node", "id": victim, "health": "up"})
                    steps.append({"t": "advance", "dt": 2 * 60 + 1})
                    # the first operation after the server is due back is a multi-key one
                    ks0 = rng.sample(keys, min(len(keys), rng.randint(1, 6)))
                    if not any(k in owned for k in ks0):
                        ks0.append(rng.choice(owned))
                elif flavour == "evicted":
                    for _ in range(ck["retry_attempts"] + 3):
                        steps.append({"t": "call", "m": "set", "a": [E(rng.choice(owned)), E(b"pre")],
                                      "k": {"noreply": False}, "tag": "preamble"})
                        steps.append({"t": "advance", "dt": 1.5})
                else:
                    # one failure only: the server stays in rotation but in its retry window, so nothing is
                    # sent for its keys during the workload that follows immediately
                    ck["retry_timeout"] = 30
                    steps.append({"t": "call", "m": "get", "a": [E(rng.choice(owned))], "k": {}, "tag": "preamble"})
                if flavour in ("evicted", "revival", "backoff"):
                    steps.append({"t": "wipe"})
                start = len(steps)
                if flavour == "revival":
                    ks0 = list(dict.fromkeys(ks0))
                    if rng.random() < 0.5:
                        steps.append({"t": "call", "m": "set_many", "a": [E({k: b"7" for k in ks0})],
                                      "k": {"noreply": False}})
                    else:
                        steps.append({"t": "call", "m": rng.choice(["get_many", "gets_many"]), "a": [E(ks0)], "k": {}})
            else:
                degraded = False
                flavour = None
        if not degraded and not spares and bystander is None and nn >= 2 and rng.random() < 0.08:
            # one failure, the server is healthy again at once, a little more than retry_timeout passes (far less
            # than dead_timeout): the very next operation - a multi-key one - is sent to it like any other
            ck["retry_attempts"] = rng.choice([1, 2])
            victim = rng.randrange(nn)
            owned = [k for k in keys if refhash.owner(names, split_pair(k)[0]) == names[victim]]
            if owned:
                steps.append({"t": "node", "id": victim, "health": rng.choice(["refuse", "reset"])})
                steps.append({"t": "call", "m": "get", "a": [E(rng.choice(owned))], "k": {}, "tag": "preamble"})
                steps.append({"t": "node", "id": victim, "health": "up"})
                steps.append({"t": "advance", "dt": rng.choice([1.5, 5, 30])})
                steps.append({"t": "wipe"})
                start = len(steps)
                ks0 = list(dict.fromkeys(rng.sample(keys, min(len(keys), rng.randint(1, 6))) + [rng.choice(owned)]))
                steps.append({"t": "call", "m": rng.choice(["get_many", "gets_many"]), "a": [E(ks0)], "k": {}})
                ck["default_noreply"] = False

        small_items = not degraded and rng.random() < 0.2
        if small_items:
            for n in nodes:
                n["opts"] = dict(n.get("opts") or {}, item_max=2048)

        def some(lo=0, hi=8):
            n = rng.randint(lo, min(hi, len(keys)))
            ks = rng.sample(keys, n)
            if ks and rng.random() < 0.15:
                ks.append(ks[0])
            return ks

        def val():
            return rng.choice([b"7", b"100", b"v-%d" % rng.randrange(1000), b"x" * rng.choice([1, 10, 100])])

        written = []
        for _ in range(rng.randint(5, 25)):
            m = rng.choice(["set", "set_many", "set_many", "get", "get_many", "get_many", "gets", "gets_many",
                            "delete", "delete_many", "incr", "decr", "touch", "add", "replace", "append", "prepend",
                            "cas", "gat", "gats"])
            key = rng.choice(written) if written and rng.random() < 0.7 else rng.choice(keys)
            a, k = [], {}
            if m in ("set", "add", "replace", "append", "prepend"):
                a = [E(key), E(val())]
                k["noreply"] = rng.choice([False, False, True])
                if small_items and m in ("set", "add", "replace") and rng.random() < 0.15:
                    # refused by the server with SERVER_ERROR object too large - an ordinary reply on a healthy
                    # connection, which says nothing about the server's health
                    a = [E(key), E(b"L" * rng.choice([2049, 3000, 5000]))]
                    k["noreply"] = False
                written.append(key)
            elif m == "set_many":
                ks = list(dict.fromkeys(some(1, 10)))
                a = [E({kk: val() for kk in ks})]
                k["noreply"] = rng.choice([False, False, True])
                written.extend(ks)
            elif m == "cas":
                a = [E(key), E(val()), E(rng.choice([b"1", b"7", b"999"]))]
            elif m in ("get", "gets"):
                a = [E(key)]
                if rng.random() < 0.3:
                    k["default"] = E(b"d")
            elif m in ("gat", "gats"):
                a = [E(key)]
                k["expire"] = rng.choice([0, 100])
            elif m in ("get_many", "gets_many"):
                ks = some(0, 12)
                if written and rng.random() < 0.6:
                    ks += rng.sample(written, min(len(written), 3))
                if len(keys) >= 20 and rng.random() < 0.15:
                    ks = list(keys)          # every key at once: dozens of keys per server in one call
                    rng.shuffle(ks)
                a = [E(ks)] if rng.random() < 0.9 else [{"$iter": [E(x) for x in ks]}]
            elif m == "delete":
                a = [E(key)]
                k["noreply"] = rng.choice([False, True])
            elif m == "delete_many":
                a = [E(some(0, 5))]
                if rng.random() < 0.2:
                    a = [{"$iter": a[0]}]           # a one-shot iterator of keys (a generator, map(), iter())
                k["noreply"] = rng.choice([False, True])
            elif m in ("incr", "decr"):
                a = [E(key), rng.choice([1, 5])]
            elif m == "touch":
                a = [E(key)]
                k["expire"] = rng.choice([0, 100])
                k["noreply"] = rng.choice([False, True])
            steps.append({"t": "call", "m": m, "a": a, "k": k})
            if bystander is not None and bystander["at"] == 0:
                b = bystander
                steps.append({"t": "node", "id": b["node"], "health": "refuse"})
                for _ in range(b["retry_attempts"] + 2):
                    steps.append({"t": "call", "by": 0, "m": "get", "a": [E(b"theirs")], "k": {}, "tag": "bystander"})
                    steps.append({"t": "advance", "dt": 1.5})
                steps.append({"t": "node", "id": b["node"], "health": "up"})
                steps.append({"t": "advance", "dt": b["dt"]})
            if bystander is not None:
                bystander["at"] -= 1
            if flavour == "failing" and rng.random() < 0.45:
                # let the retry window elapse so that the workload also performs the retries and the eviction
                steps.append({"t": "advance", "dt": 1.5})
            if flavour == "failing" and vname is not None and rng.random() < 0.25:
                vk = [kk for kk in keys if refhash.owner(names, split_pair(kk)[0]) == vname]
                if vk:
                    ks = rng.sample(vk, min(len(vk), rng.randint(1, 3)))
                    steps.append({"t": "call", "m": "set_many", "a": [E({kk: val() for kk in ks})],
                                  "k": {"noreply": False}})
            if spares and rng.random() < 0.15:
                steps.append({"t": "call", "m": "add_server", "a": [E(spares.pop())], "k": {}})
        if degraded:
            # a server that swallows requests silently (accept-then-close, blackhole) cannot be noticed by a
            # noreply store, so stores wait for their replies in these scenarios
            for st in steps[start:]:
                if st["t"] == "call" and "noreply" in (st.get("k") or {}):
                    st["k"]["noreply"] = False
            ck["default_noreply"] = False
        return [{"property": self.id, "world": w, "steps": steps, "phase2": start, "degraded": degraded,
                 "flavour": flavour, "victim": vname}]

    def run(self, scn):
        hook = HashLockstep(scn, scn.get("phase2", 0))
        res = engine.execute(scn, (hook,))
        if hook.model is not None and hook.model.ambiguous:
            res.skipped = "ambiguous-timing"
            return res
        res.extra["mismatch"] = hook.mismatch
        res.violations = self.judge(scn, res)
        return res

    def judge(self, scn, res):
        out = []
        w = scn["world"]
        ck = w["client_kwargs"]
        prefix = codec.dec(ck.get("key_prefix", E(b"")))
        if isinstance(prefix, str):
            prefix = prefix.encode()
        servers = [codec.dec(s) for s in w["servers"]]
        names = [refhash.node_name(s) for s in servers]
        name_of_node = {}
        for n in w["nodes"]:
            name_of_node[n["id"]] = n["path"] if "path" in n else "%s:%s" % (n["addrs"][0][0], n["addrs"][0][1])
        start = scn.get("phase2", 0)
        degraded = scn.get("degraded") and scn.get("flavour") != "backoff"
        backoff = scn.get("flavour") == "backoff"
        MUCE = engine.pymemcache.exceptions.MemcacheUnexpectedCloseError
        victim = scn.get("victim")
        agree = {}
        rotation_changed = False
        for rec in res.calls:
            if rec.step < start or scn["steps"][rec.step].get("by") is not None:
                continue
            args, kwargs = res.extra["args"][rec.step]
            m = rec.method
            if m == "add_server":
                if rec.outcome == "return":
                    nm = refhash.node_name(args[0])
                    if nm not in names:
                        names = names + [nm]
                        rotation_changed = True
                else:
                    out.append(viol("add_server-raised", rec, exc=type(rec.exc).__name__))
                continue
            if rec.outcome == "raise" and isinstance(rec.exc, (OSError, MUCE)) and (degraded or backoff):
                continue
            if m == "set_many":
                ckeys = list(args[0].keys())
            elif m in ("get_many", "gets_many", "delete_many"):
                ckeys = list(args[0])
            else:
                ckeys = [args[0]]
            expected = []
            for ckey in ckeys:
                rk, k = split_pair(ckey)
                wk = prefix + (k.encode("utf8") if isinstance(k, str) else k)
                expected.append((refhash.owner(names, rk), wk, rk))
            got = [(name_of_node[c[0]], c[2]) for c in rec.commands if c[2] is not None]
            if backoff:
                # the failing server is still in rotation: nothing may be sent for its keys (retry window),
                # everything else goes to its owner over the full list
                expected = [e for e in expected if e[0] != victim]
            if not degraded:
                want = sorted((e[0], e[1]) for e in expected)
                if sorted(got) != want:
                    extra = [g for g in got if g not in want]
                    missing = [x for x in want if x not in got]
                    disc = "wrong-server" if extra and missing else ("duplicate-or-extra" if extra else "key-missing")
                    out.append(viol("command-not-at-owner", rec, disc=disc,
                                    extra=repr(extra[:3])[:200], missing=repr(missing[:3])[:200],
                                    ncmds=len(got), nkeys=len(want)))
            else:
                # reduced rotation: single- and multi-key paths must still agree with each other
                if len(got) > len(expected) or (len(got) != len(expected) and scn.get("flavour") == "evicted"):
                    out.append(viol("command-count-differs-from-keys", rec, ncmds=len(got), nkeys=len(expected)))
                by_wk = {}
                for e in expected:
                    by_wk.setdefault(e[1], e[2])
                for node, wk in got:
                    rk = by_wk.get(wk)
                    if rk is None:
                        out.append(viol("command-for-unrequested-key", rec, key=repr(wk)[:60]))
                        continue
                    prev = agree.setdefault(repr(rk), (node, m))
                    if prev[0] != node:
                        out.append(viol("single-and-multi-key-paths-disagree", rec, key=repr(rk)[:60],
                                        here=node, there=prev[0], other_method=prev[1]))
        for oracle, rec, d in res.extra["mismatch"][:2]:
            out.append(viol(oracle, rec, **d))
        # no key may live on two servers at once (fault-free batch)
        if not degraded and not backoff and not rotation_changed and not out:
            seen = {}
            for nid, n in res.world.nodes.items():
                for k in n.snapshot():
                    if k in seen:
                        out.append(viol("key-stored-on-two-servers", res.calls[-1], key=repr(k)[:60]))
                    seen[k] = nid
        out.sort(key=lambda v: (v["step"] if v["step"] is not None else -1))
        return out

    def trace_key(self, scn, res):
        w = scn["world"]
        shape = tuple(("u" if "path" in n else "t") for n in w["nodes"])
        ops = []
        multi_span = cross = False
        multi_written, single_written = set(), set()
        for c in res.calls:
            if c.step < scn.get("phase2", 0) or scn["steps"][c.step].get("by") is not None:
                continue
            nn = len({x[0] for x in c.commands})
            ops.append((c.method, min(len(c.commands), 6), nn))
            if c.method in ("set_many", "get_many", "gets_many", "delete_many") and nn >= 2:
                multi_span = True
            keys = {x[2] for x in c.commands}
            if c.method == "set_many":
                multi_written |= keys
            elif c.method in ("set", "add"):
                single_written |= keys
            if c.method in ("get", "gets", "delete", "incr", "touch") and keys & multi_written:
                cross = True
            if c.method in ("get_many", "gets_many") and keys & single_written:
                cross = True
        return (shape, bool(w["client_kwargs"].get("use_pooling")), scn.get("degraded"), tuple(ops)), (multi_span and cross)

    def probe_names(self):
        return ("multi-key-call-spans-3-servers", "server-key-pair-routed", "unix-and-tcp-mixed", "reduced-rotation",
                "duplicate-key-in-multi-get", "empty-key-collection", "fifty-keys",
                "server-added-at-run-time", "owning-server-in-retry-window",
                "workload-meets-failing-server", "multi-key-call-first-after-dead_timeout",
                "another-hashclient-evicts-its-own-server", "server-error-reply-then-more-traffic")

    def probes(self, scn, res):
        p = {}
        w = scn["world"]
        if any("path" in n for n in w["nodes"]) and any("addrs" in n for n in w["nodes"]):
            p["unix-and-tcp-mixed"] = 1
        if scn.get("degraded") and scn.get("flavour") == "evicted":
            p["reduced-rotation"] = 1
        if scn.get("flavour") == "backoff":
            p["owning-server-in-retry-window"] = 1
        if scn.get("flavour") == "failing":
            p["workload-meets-failing-server"] = 1
        if scn.get("flavour") == "revival":
            p["multi-key-call-first-after-dead_timeout"] = 1
        if any(c.outcome == "raise" and type(c.exc).__name__ == "MemcacheServerError" for c in res.calls[:-1]):
            p["server-error-reply-then-more-traffic"] = 1
        if w.get("bystanders") and any(st.get("by") is not None for st in scn["steps"]):
            p["another-hashclient-evicts-its-own-server"] = 1
        if any(c.method == "add_server" and c.outcome == "return" for c in res.calls):
            p["server-added-at-run-time"] = 1
        allk = set()
        for c in res.calls:
            allk |= {x[2] for x in c.commands}
        if len(allk) >= 40:
            p["fifty-keys"] = 1
        for c in res.calls:
            if c.step < 0:
                continue
            if len({x[0] for x in c.commands}) >= 3:
                p["multi-key-call-spans-3-servers"] = 1
            st = scn["steps"][c.step]
            txt = codec.canon(st["a"][:1])
            if '"$t"' in txt:
                p["server-key-pair-routed"] = 1
            if c.method in ("get_many", "gets_many", "delete_many") and txt in ("[[]]",):
                p["empty-key-collection"] = 1
            if c.method in ("get_many", "gets_many") and len(c.commands) > len({x[2] for x in c.commands}):
                p["duplicate-key-in-multi-get"] = 1
        return p


PROP = C12()

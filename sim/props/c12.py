"""C12 - HashClient single-key and multi-key operations agree on where a key lives."""
from .. import engine, gen, codec, model, refhash
from .base import Prop, viol
from .c05 import LockstepHook
from .c01 import make_cfg

E = codec.enc


def split_pair(k):
    if isinstance(k, tuple) and len(k) == 2:
        return k[0], k[1]
    return k, k


def strip_pairs(method, args):
    """Replace (server_key, key) pairs by the key part, as the results are keyed."""
    if not args:
        return args
    a0 = args[0]
    if method in ("set_many",):
        a0 = {split_pair(k)[1]: v for k, v in a0.items()}
    elif method in ("get_many", "gets_many", "delete_many"):
        a0 = [split_pair(k)[1] for k in a0]
    else:
        a0 = split_pair(a0)[1]
    return [a0] + list(args[1:])


class HashLockstep(LockstepHook):
    def __init__(self, scn, start_step=0):
        LockstepHook.__init__(self, scn, "hash")
        self.start_step = start_step
        self.started = start_step == 0

    def on_step(self, world, res, i, st):
        if self.started:
            LockstepHook.on_step(self, world, res, i, st)

    def after_call(self, world, res, rec):
        if rec.step < 0:
            return
        if not self.started:
            if rec.step + 1 >= self.start_step:
                self.started = True
                m = self._m(world)
                for n in world.nodes.values():
                    if n.health == "up":
                        for k, it in n.snapshot().items():
                            m.items[k] = [it[0], it[1], it[2], m._newver(), world.clock.now]
            return
        args, kwargs = res.extra["args"][rec.step]
        res.extra["args"][rec.step] = (strip_pairs(rec.method, args), kwargs)
        try:
            LockstepHook.after_call(self, world, res, rec)
        finally:
            res.extra["args"][rec.step] = (args, kwargs)


class C12(Prop):
    id = "C12"
    level = "exploration"
    rule = ("work unit = one seed -> a HashClient over 1-5 simulated servers (given as tuples, 'host:port' strings, "
            "UNIX paths; pooled or not; with key prefix) and a history of 5-25 key-addressed operations over a key "
            "set of up to 50 keys (str and bytes, some as (server_key, key) pairs): every single-key operation and "
            "set_many / get_many / gets_many / delete_many, interleaved so that keys written singly are read by "
            "multi-key calls and vice versa; one fifth of the units first evict a server through failover and then "
            "run the same workload on the reduced rotation. Oracle: per-server command logs versus an independent "
            "reference placement (rendezvous over a from-the-C-source MurmurHash3): every command for key k at "
            "owner(k) only, each key of a multi-key call exactly once; plus a single abstract map stepped in "
            "lock-step (results and union of server stores). distinct = (server-set shape, op/arity sequence, number "
            "of servers touched per multi-key call); non-trivial = at least one multi-key call spanning >= 2 servers "
            "and one single-key call on a key written by a multi-key call or vice versa.")
    assumptions = ["fault-free in the main batch; keys restricted to code points < 256 so the reference hash is "
                   "the published MurmurHash3_x86_32 (C11/C14 are not claimed)"]

    def plan(self, tier):
        if tier == "quick":
            return {"units": 40000, "budget_s": 90, "block": 200}
        return {"units": 1200000, "budget_s": 1500, "block": 400}

    def gen(self, rng, idx, tier):
        nn = rng.randint(1, 5)
        nodes, servers = [], []
        for i in range(nn):
            form = rng.choice(["tuple", "tuple", "hostport", "unix", "unixcolon"])
            spec = {"id": i}
            if form in ("unix", "unixcolon"):
                path = "/var/run/memcached/m%d.sock" % i
                spec["path"] = path
                servers.append(E(path if form == "unix" else "unix:" + path))
            else:
                ip = "10.%d.0.%d" % (rng.randint(0, 3), i + 1)
                port = rng.choice([11211, 11211, 11212 + i])
                spec["addrs"] = [[ip, port]]
                servers.append(E((ip, port)) if form == "tuple" else
                               (E("%s:%d" % (ip, port)) if port != 11211 or rng.random() < 0.5 else E(ip)))
            nodes.append(spec)
        ck = {"default_noreply": rng.random() < 0.3}
        if rng.random() < 0.4:
            ck["key_prefix"] = E(rng.choice([b"p:", b"tenant/42/", "sp-"]))
        if rng.random() < 0.4:
            ck["use_pooling"] = True
            ck["max_pool_size"] = rng.choice([None, 2])
        degraded = nn >= 2 and rng.random() < 0.2
        ck["retry_attempts"] = rng.choice([0, 1, 2])
        ck["retry_timeout"], ck["dead_timeout"] = 1, 600
        w = {"stack": "hash", "servers": servers, "nodes": nodes, "client_kwargs": ck,
             "knobs": {"recv_size": rng.choice(gen.RECV_SIZES)}}
        nkeys = rng.choice([1, 2, 3, 5, 8, 20, 50])
        keys = []
        for j in range(nkeys):
            base = rng.choice([b"k%d" % j, "s%d" % j, b"user:%d:profile" % j, "\xe9l\xe9ment%d" % j
                               if False else "item-%d" % j, bytes([0x80 + j % 100]) + b"%d" % j])
            if rng.random() < 0.2:
                sk = rng.choice([b"shard%d" % (j % 3), "group%d" % (j % 2)])
                keys.append((sk, base))
            else:
                keys.append(base)
        names = [refhash.node_name(codec.dec(s)) for s in servers]
        steps = []
        start = 0
        if degraded:
            victim = rng.randrange(nn)
            vname = names[victim]
            owned = [k for k in keys if refhash.owner(names, split_pair(k)[0]) == vname]
            if owned:
                steps.append({"t": "node", "id": victim, "health": rng.choice(["refuse", "connect_timeout", "reset"])})
                for _ in range(ck["retry_attempts"] + 3):
                    steps.append({"t": "call", "m": "set", "a": [E(rng.choice(owned)), E(b"pre")],
                                  "k": {"noreply": False}, "tag": "preamble"})
                    steps.append({"t": "advance", "dt": 1.5})
                start = len(steps)
            else:
                degraded = False

        def some(lo=0, hi=8):
            n = rng.randint(lo, min(hi, len(keys)))
            ks = rng.sample(keys, n)
            if ks and rng.random() < 0.15:
                ks.append(ks[0])
            return ks

        def val():
            return rng.choice([b"7", b"100", b"v-%d" % rng.randrange(1000), b"x" * rng.choice([1, 10, 100])])

        written = []
        for _ in range(rng.randint(5, 25)):
            m = rng.choice(["set", "set_many", "set_many", "get", "get_many", "get_many", "gets", "gets_many",
                            "delete", "delete_many", "incr", "decr", "touch", "add", "replace", "append", "prepend",
                            "cas", "gat", "gats"])
            key = rng.choice(written) if written and rng.random() < 0.7 else rng.choice(keys)
            a, k = [], {}
            if m in ("set", "add", "replace", "append", "prepend"):
                a = [E(key), E(val())]
                k["noreply"] = rng.choice([False, False, True])
                written.append(key)
            elif m == "set_many":
                ks = list(dict.fromkeys(some(1, 10)))
                a = [E({kk: val() for kk in ks})]
                k["noreply"] = rng.choice([False, False, True])
                written.extend(ks)
            elif m == "cas":
                a = [E(key), E(val()), E(rng.choice([b"1", b"7", b"999"]))]
            elif m in ("get", "gets"):
                a = [E(key)]
                if rng.random() < 0.3:
                    k["default"] = E(b"d")
            elif m in ("gat", "gats"):
                a = [E(key)]
                k["expire"] = rng.choice([0, 100])
            elif m in ("get_many", "gets_many"):
                ks = some(0, 12)
                if written and rng.random() < 0.6:
                    ks += rng.sample(written, min(len(written), 3))
                a = [E(ks)]
            elif m == "delete":
                a = [E(key)]
                k["noreply"] = rng.choice([False, True])
            elif m == "delete_many":
                a = [E(some(0, 5))]
                k["noreply"] = rng.choice([False, True])
            elif m in ("incr", "decr"):
                a = [E(key), rng.choice([1, 5])]
            elif m == "touch":
                a = [E(key)]
                k["expire"] = rng.choice([0, 100])
                k["noreply"] = rng.choice([False, True])
            steps.append({"t": "call", "m": m, "a": a, "k": k})
        return [{"property": self.id, "world": w, "steps": steps, "phase2": start, "degraded": degraded}]

    def run(self, scn):
        hook = HashLockstep(scn, scn.get("phase2", 0))
        res = engine.execute(scn, (hook,))
        if hook.model is not None and hook.model.ambiguous:
            res.skipped = "ambiguous-timing"
            return res
        res.extra["mismatch"] = hook.mismatch
        res.violations = self.judge(scn, res)
        return res

    def judge(self, scn, res):
        out = []
        w = scn["world"]
        ck = w["client_kwargs"]
        prefix = codec.dec(ck.get("key_prefix", E(b"")))
        if isinstance(prefix, str):
            prefix = prefix.encode()
        servers = [codec.dec(s) for s in w["servers"]]
        names = [refhash.node_name(s) for s in servers]
        name_of_node = {n["id"]: names[i] for i, n in enumerate(w["nodes"])}
        start = scn.get("phase2", 0)
        degraded = scn.get("degraded")
        agree = {}
        for rec in res.calls:
            if rec.step < start:
                continue
            args, kwargs = res.extra["args"][rec.step]
            m = rec.method
            if m == "set_many":
                ckeys = list(args[0].keys())
            elif m in ("get_many", "gets_many", "delete_many"):
                ckeys = list(args[0])
            else:
                ckeys = [args[0]]
            expected = []
            for ckey in ckeys:
                rk, k = split_pair(ckey)
                wk = prefix + (k.encode("utf8") if isinstance(k, str) else k)
                expected.append((refhash.owner(names, rk), wk, rk))
            got = [(name_of_node[c[0]], c[2]) for c in rec.commands if c[2] is not None]
            if not degraded:
                want = sorted((e[0], e[1]) for e in expected)
                if sorted(got) != want:
                    extra = [g for g in got if g not in want]
                    missing = [x for x in want if x not in got]
                    disc = "wrong-server" if extra and missing else ("duplicate-or-extra" if extra else "key-missing")
                    out.append(viol("command-not-at-owner", rec, disc=disc,
                                    extra=repr(extra[:3])[:200], missing=repr(missing[:3])[:200],
                                    ncmds=len(got), nkeys=len(want)))
            else:
                # reduced rotation: single- and multi-key paths must still agree with each other
                if len(got) != len(expected):
                    out.append(viol("command-count-differs-from-keys", rec, ncmds=len(got), nkeys=len(expected)))
                by_wk = {}
                for e in expected:
                    by_wk.setdefault(e[1], e[2])
                for node, wk in got:
                    rk = by_wk.get(wk)
                    if rk is None:
                        out.append(viol("command-for-unrequested-key", rec, key=repr(wk)[:60]))
                        continue
                    prev = agree.setdefault(repr(rk), (node, m))
                    if prev[0] != node:
                        out.append(viol("single-and-multi-key-paths-disagree", rec, key=repr(rk)[:60],
                                        here=node, there=prev[0], other_method=prev[1]))
        for oracle, rec, d in res.extra["mismatch"][:2]:
            out.append(viol(oracle, rec, **d))
        # no key may live on two servers at once (fault-free batch)
        if not degraded and not out:
            seen = {}
            for nid, n in res.world.nodes.items():
                for k in n.snapshot():
                    if k in seen:
                        out.append(viol("key-stored-on-two-servers", res.calls[-1], key=repr(k)[:60]))
                    seen[k] = nid
        out.sort(key=lambda v: (v["step"] if v["step"] is not None else -1))
        return out

    def trace_key(self, scn, res):
        w = scn["world"]
        shape = tuple(("u" if "path" in n else "t") for n in w["nodes"])
        ops = []
        multi_span = cross = False
        multi_written, single_written = set(), set()
        for c in res.calls:
            if c.step < scn.get("phase2", 0):
                continue
            nn = len({x[0] for x in c.commands})
            ops.append((c.method, min(len(c.commands), 6), nn))
            if c.method in ("set_many", "get_many", "gets_many", "delete_many") and nn >= 2:
                multi_span = True
            keys = {x[2] for x in c.commands}
            if c.method == "set_many":
                multi_written |= keys
            elif c.method in ("set", "add"):
                single_written |= keys
            if c.method in ("get", "gets", "delete", "incr", "touch") and keys & multi_written:
                cross = True
            if c.method in ("get_many", "gets_many") and keys & single_written:
                cross = True
        return (shape, bool(w["client_kwargs"].get("use_pooling")), scn.get("degraded"), tuple(ops)), (multi_span and cross)

    def probe_names(self):
        return ("multi-key-call-spans-3-servers", "server-key-pair-routed", "unix-and-tcp-mixed", "reduced-rotation",
                "duplicate-key-in-multi-get", "empty-key-collection", "fifty-keys")

    def probes(self, scn, res):
        p = {}
        w = scn["world"]
        if any("path" in n for n in w["nodes"]) and any("addrs" in n for n in w["nodes"]):
            p["unix-and-tcp-mixed"] = 1
        if scn.get("degraded"):
            p["reduced-rotation"] = 1
        for c in res.calls:
            if c.step < 0:
                continue
            if len({x[0] for x in c.commands}) >= 3:
                p["multi-key-call-spans-3-servers"] = 1
            st = scn["steps"][c.step]
            txt = codec.canon(st["a"][:1])
            if '"$t"' in txt:
                p["server-key-pair-routed"] = 1
            if c.method in ("get_many", "gets_many", "delete_many") and txt in ("[[]]",):
                p["empty-key-collection"] = 1
            if c.method in ("get_many", "gets_many") and len(c.commands) > len({x[2] for x in c.commands}):
                p["duplicate-key-in-multi-get"] = 1
        return p


PROP = C12()

"""C13 - HashClient failover: bounded probing, eviction, rerouting, recovery."""
import math

from .. import engine, gen, codec, refhash
from ..world import TICK
from .base import Prop, viol

E = codec.enc
DOWN_KINDS = ("refuse", "connect_timeout", "reset", "blackhole", "eof", "unreach")
SINGLE = ("get", "set", "delete", "incr", "touch", "add", "gets", "replace", "gat")
MULTI = ("get_many", "set_many", "delete_many", "gets_many")


def q(x):
    """round to the clock's 2^-10 s grid"""
    return round(x / TICK) * TICK


class C13(Prop):
    id = "C13"
    level = "exploration"
    rule = ("work unit = one seed -> a HashClient over 2-3 simulated servers (retry_attempts in {0,1,2}; "
            "(retry_timeout, dead_timeout) in {(1,60),(0.5,5),(2,10)}; ignore_exc on/off; pooled or not) driven by a "
            "timed history of 20-80 events {key-addressed operation (single- or multi-key) on keys whose reference "
            "owner is server i; clock advance just below / just above retry_timeout, just above dead_timeout, or "
            "small; server i starts failing with kind refuse / connect-timeout / reset-on-send / blackhole / "
            "accept-then-close, or recovers}, followed by a healing suffix (all servers up, traffic on every key for "
            "2 x dead_timeout plus slack) and a final verification round. Oracles over the recorded history: contact "
            "rate bounds per failing server, no eviction on a single failure, no healthy server bypassed, bounded "
            "recovery of the original placement, and the set of exceptions that may escape. distinct = abstract "
            "trace of (event kind, target server, outcome class, number of servers contacted); non-trivial = at "
            "least one server failed while traffic for it was flowing and traffic continued afterwards. The first work "
            "units are a bounded-exhaustive enumeration, ordered by depth: every event sequence up to depth 3 (quick) / "
            "4 (thorough) over the alphabet {op on server 0/1, multi-key op, advance just below / just above "
            "retry_timeout / above dead_timeout, server 0/1 down, server 0/1 up} x retry_attempts {0,1,2} x ignore_exc "
            "on/off for 2 servers (6,660 resp. 66,660 histories), each with the healing suffix; the remaining units "
            "are the seeded random long histories.")
    state_measure = ("distinct abstract failover states reached after an event: per server (up/down, failed contacts "
                     "since last success capped at 4, contacted-within-retry_timeout flag)")
    assumptions = [
        "stores are issued with noreply off so that every contact with a failing server is observable by the client",
        "clock advances stay at least 8 ticks (2^-10 s) away from retry_timeout / dead_timeout so no boundary is sampled",
        "a server answering SERVER_ERROR is not treated as a failing server",
    ]

    def plan(self, tier):
        if tier == "quick":
            return {"units": 16000, "budget_s": 100, "block": 50}
        return {"units": 480000, "budget_s": 1700, "block": 100}

    # ---- bounded-exhaustive part: every event sequence up to a depth over a small alphabet
    ALPHABET = [("op", 0), ("op", 1), ("mset",), ("adv", "below"), ("adv", "above"), ("adv", "dead"),
                ("down", 0), ("down", 1), ("up", 0), ("up", 1)]
    CONFIGS = [(ra, ign) for ra in (0, 1, 2) for ign in (False, True)]

    def enum_count(self, depth):
        return sum(len(self.ALPHABET) ** d for d in range(1, depth + 1)) * len(self.CONFIGS)

    def enum_decode(self, idx):
        """idx -> (config, sequence), ordered by depth so that a prefix of the enumeration is complete to a depth."""
        ncfg = len(self.CONFIGS)
        cfg = self.CONFIGS[idx % ncfg]
        k = idx // ncfg
        d = 1
        n = len(self.ALPHABET)
        while k >= n ** d:
            k -= n ** d
            d += 1
        seq = []
        for _ in range(d):
            seq.append(self.ALPHABET[k % n])
            k //= n
        return cfg, seq, d

    def gen_enum(self, rng, idx):
        (ra, ign), seq, depth = self.enum_decode(idx)
        nodes, servers = gen.node_specs(2)
        names = [refhash.node_name(codec.dec(s)) for s in servers]
        rt, dead = 1, 10
        ck = {"default_noreply": False, "retry_attempts": ra, "retry_timeout": rt, "dead_timeout": dead,
              "ignore_exc": ign}
        w = {"stack": "hash", "servers": servers, "nodes": nodes, "client_kwargs": ck, "knobs": {"recv_size": 4096}}
        owned = {n: [] for n in names}
        j = 0
        while any(len(v) < 1 for v in owned.values()):
            k = b"k%d" % j
            o = refhash.owner(names, k)
            if not owned[o]:
                owned[o].append(k)
            j += 1
        allkeys = [owned[n][0] for n in names]
        kind = rng.choice(DOWN_KINDS)
        steps = []
        for ev in seq:
            if ev[0] == "op":
                m = rng.choice(("get", "set", "delete", "incr"))
                a = [E(allkeys[ev[1]])]
                if m == "set":
                    a.append(E(b"5"))
                elif m == "incr":
                    a.append(1)
                steps.append({"t": "call", "m": m, "a": a, "k": {}})
            elif ev[0] == "mset":
                steps.append({"t": "call", "m": rng.choice(("set_many", "get_many")),
                              "a": [E({k: b"7" for k in allkeys})], "k": {}})
                if steps[-1]["m"] == "get_many":
                    steps[-1]["a"] = [E(list(allkeys))]
            elif ev[0] == "adv":
                dt = {"below": q(rt - 8 * TICK), "above": q(rt + 8 * TICK), "dead": q(dead + 0.5)}[ev[1]]
                steps.append({"t": "advance", "dt": dt})
            elif ev[0] == "down":
                steps.append({"t": "node", "id": ev[1], "health": kind})
            else:
                steps.append({"t": "node", "id": ev[1], "health": "up"})
        heal = len(steps)
        for i in range(2):
            steps.append({"t": "node", "id": i, "health": "up"})
        step = q(max(rt * 0.75, dead / 8.0))
        rounds = int(math.ceil((2 * dead + 4 * step + 1) / step))
        for _ in range(rounds):
            for k in allkeys:
                steps.append({"t": "call", "m": "get", "a": [E(k)], "k": {}, "tag": "heal"})
            steps.append({"t": "advance", "dt": step})
        final = len(steps)
        for k in allkeys:
            steps.append({"t": "call", "m": "get", "a": [E(k)], "k": {}, "tag": "final"})
        return [{"property": self.id, "world": w, "steps": steps, "heal": heal, "final": final,
                 "enum": {"depth": depth, "index": idx}}]

    def gen(self, rng, idx, tier):
        depth = 3 if tier == "quick" else 4
        if idx < self.enum_count(depth):
            return self.gen_enum(rng, idx)
        nn = rng.choice([2, 2, 3])
        nodes, servers = gen.node_specs(nn, unix=rng.random() < 0.15)
        resolver = {}
        if rng.random() < 0.4:
            # the same servers, spelled the other ways HashClient accepts: 'host:port', a bare host (default
            # port), a host name, 'unix:/path'
            for i, n in enumerate(nodes):
                if "path" in n:
                    if rng.random() < 0.6:
                        servers[i] = E("unix:" + n["path"])
                    continue
                ip, port = n["addrs"][0]
                form = rng.choice(["hostport", "bare", "name", "nameport", "tuple"])
                if form == "hostport":
                    servers[i] = E("%s:%d" % (ip, port))
                elif form == "bare":
                    servers[i] = E(ip)
                elif form in ("name", "nameport"):
                    host = "cache-%s" % "abc"[i]
                    resolver[host] = [["inet", ip]]
                    servers[i] = E(host if form == "name" else "%s:%d" % (host, port))
        names = [refhash.node_name(codec.dec(s)) for s in servers]
        ra = rng.choice([0, 1, 2])
        rt, dead = rng.choice([(1, 60), (0.5, 5), (2, 10), (0.5, 5)])
        ck = {"default_noreply": False, "retry_attempts": ra, "retry_timeout": rt, "dead_timeout": dead,
              "ignore_exc": rng.random() < 0.5, "timeout": rng.choice([None, 0.25]), "connect_timeout": rng.choice([None, 0.25])}
        if rng.random() < 0.3:
            ck["use_pooling"] = True
            ck["max_pool_size"] = rng.choice([None, 2])
        if rng.random() < 0.3:
            ck["key_prefix"] = E(b"p:")
        w = {"stack": "hash", "servers": servers, "nodes": nodes, "client_kwargs": ck,
             "knobs": {"recv_size": 4096, "log_debug": rng.random() < 0.1}}
        if resolver:
            w["resolver"] = resolver
        # keys: every server owns at least one
        owned = {n: [] for n in names}
        j = 0
        while any(len(v) < 2 for v in owned.values()) and j < 400:
            k = rng.choice([b"k%d" % j, "s%d" % j])
            o = refhash.owner(names, k)
            if len(owned[o]) < 3:
                owned[o].append(k)
            j += 1
        allkeys = [k for v in owned.values() for k in v]
        steps = []
        down = {}
        bystander = rng.random() < 0.1
        if bystander:
            # another HashClient object in the same process, over the same servers, with the same settings: what
            # it learns about failures is its own business
            w["bystanders"] = [{"stack": "hash", "servers": list(servers), "client_kwargs": dict(ck)}]

        def op(target=None):
            r = rng.random()
            if r < 0.7:
                n = target if target is not None else rng.choice(names)
                key = rng.choice(owned[n])
                m = rng.choice(SINGLE)
                a, k = [E(key)], {}
                if m in ("set", "add", "replace"):
                    a.append(E(b"%d" % rng.randrange(100)))
                elif m == "incr":
                    a.append(1)
                elif m in ("touch", "gat"):
                    k["expire"] = 0
                return {"t": "call", "m": m, "a": a, "k": k}
            m = rng.choice(MULTI)
            ks = rng.sample(allkeys, rng.randint(1, min(5, len(allkeys))))
            if target is not None and not any(k in owned[target] for k in ks):
                ks.append(rng.choice(owned[target]))
            if m == "set_many":
                return {"t": "call", "m": m, "a": [E({k: b"7" for k in ks})], "k": {}}
            return {"t": "call", "m": m, "a": [E(ks)], "k": {}}

        if ra >= 1 and rng.random() < 0.1:
            # a server fails for the first time; when its retry is due the next call for one of its keys is one the
            # client refuses before any network use (an illegal argument).  That call says nothing about the
            # server's health: the failure count goes on from where it was.
            i = rng.randrange(nn)
            tgt = names[i]
            down[i] = rng.choice(DOWN_KINDS)
            steps.append({"t": "node", "id": i, "health": down[i]})
            steps.append(op(tgt))
            steps.append({"t": "advance", "dt": q(rt + 8 * TICK)})
            key = rng.choice(owned[tgt])
            bad = rng.choice([("incr", [E(key), "1"], {}), ("touch", [E(key)], {"expire": "x"}),
                              ("set", [E(key), "non-ascii \u00e9"], {}), ("decr", [E(key), None], {})])
            steps.append({"t": "call", "m": bad[0], "a": bad[1], "k": bad[2], "tag": "bad-input"})
            for _ in range(ra + 3):
                steps.append(op(tgt))
                steps.append({"t": "advance", "dt": q(rt + 8 * TICK)})
        if rng.random() < 0.25:
            i = rng.randrange(nn)
            kind = rng.choice(DOWN_KINDS)
            tgt = names[i]
            steps.append({"t": "node", "id": i, "health": kind})
            steps.append(op(tgt))                                      # first failure
            steps.append({"t": "node", "id": i, "health": "up"})
            steps.append({"t": "advance", "dt": q(rt + 8 * TICK)})
            steps.append(op(tgt))                                      # the retry succeeds: fully recovered
            for _ in range(rng.randint(0, 3)):
                steps.append(op(tgt))
            steps.append({"t": "advance", "dt": rng.choice([q(rt * 3), q(dead + 1), 8 * TICK])})
            steps.append({"t": "node", "id": i, "health": rng.choice(DOWN_KINDS)})
            steps.append(op(tgt))                                      # one single new failure
            steps.append({"t": "node", "id": i, "health": "up"})
            for _ in range(rng.randint(2, 4)):                         # traffic continues at once
                steps.append(op(tgt))
        for _ in range(rng.randint(20, 80)):
            r = rng.random()
            if r < 0.55:
                tgt = None
                if down and rng.random() < 0.7:
                    tgt = names[rng.choice(sorted(down))]
                steps.append(op(tgt))
            elif r < 0.85:
                dt = rng.choice([q(rt * 0.25), q(rt - 8 * TICK), q(rt + 8 * TICK), q(rt * 1.5), q(dead + 0.5),
                                 q(dead * 0.5), q(rt + 8 * TICK), 8 * TICK, q(2 * dead + 1)])
                steps.append({"t": "advance", "dt": dt})
            else:
                i = rng.randrange(nn)
                if i in down:
                    del down[i]
                    steps.append({"t": "node", "id": i, "health": "up"})
                elif len(down) < nn or rng.random() < 0.5:
                    kind = rng.choice(DOWN_KINDS)
                    down[i] = kind
                    steps.append({"t": "node", "id": i, "health": kind})
                    if bystander and rng.random() < 0.7:
                        for _b in range(rng.randint(1, ra + 2)):
                            steps.append({"t": "call", "by": 0, "m": "get", "a": [E(rng.choice(owned[names[i]]))],
                                          "k": {}, "tag": "bystander"})
                            if rng.random() < 0.5:
                                steps.append({"t": "advance", "dt": q(rt + 8 * TICK)})
        # healing suffix
        heal = len(steps)
        for i in range(nn):
            steps.append({"t": "node", "id": i, "health": "up"})
        step = q(max(rt * 0.75, dead / 8.0))
        rounds = int(math.ceil((2 * dead + 4 * step + 1) / step))
        # the traffic of the healing period: reads, or nothing but multi-key writes (a cache warmer / batch loader)
        writes_only = rng.random() < 0.3
        for _ in range(rounds):
            for k in allkeys:
                if writes_only:
                    steps.append({"t": "call", "m": "set_many", "a": [E({k: b"1"})], "k": {}, "tag": "heal"})
                else:
                    steps.append({"t": "call", "m": "get", "a": [E(k)], "k": {}, "tag": "heal"})
            steps.append({"t": "advance", "dt": step})
        final = len(steps)
        for k in allkeys:
            if writes_only:
                steps.append({"t": "call", "m": "set_many", "a": [E({k: b"1"})], "k": {}, "tag": "final"})
                continue
            steps.append({"t": "call", "m": rng.choice(["get", "set"]), "a": [E(k)] + ([E(b"f")] if False else []),
                          "k": {}, "tag": "final"})
        for st in steps[final:]:
            if st["m"] == "set":
                st["a"].append(E(b"1"))
        return [{"property": self.id, "world": w, "steps": steps, "heal": heal, "final": final}]

    # ------------------------------------------------------------------
    def judge(self, scn, res):
        out = []
        w = res.world
        wspec = scn["world"]
        ck = wspec["client_kwargs"]
        ra, rt, dead = ck["retry_attempts"], ck["retry_timeout"], ck["dead_timeout"]
        ign = ck.get("ignore_exc", False)
        prefix = codec.dec(ck.get("key_prefix", E(b"")))
        servers = [codec.dec(s) for s in wspec["servers"]]
        names = [refhash.node_name(s) for s in servers]
        nid_name = {n["id"]: names[i] for i, n in enumerate(wspec["nodes"])}
        name_nid = {v: k for k, v in nid_name.items()}
        # calls made through a bystander client (another HashClient object of the same process) are not the
        # history under judgement: only what they leak into the client under test would be
        by_cids = {c.id for c in res.calls if c.step >= 0 and scn["steps"][c.step].get("by") is not None}
        rcalls = [c for c in res.calls if c.id not in by_cids]
        calls = {c.id: c for c in rcalls}
        MemcacheError = engine.pymemcache.exceptions.MemcacheError

        # ---- escape set
        for rec in rcalls:
            if rec.step < 0 or rec.outcome != "raise":
                continue
            e = rec.exc
            if ign:
                out.append(viol("exception-escaped-despite-ignore_exc", rec, disc=type(e).__name__,
                                exc=type(e).__name__, msg=engine._exc_text(e)[:80]))
            elif not ((isinstance(e, OSError) and engine._is_sim_exc(e)) or isinstance(e, MemcacheError)):
                out.append(viol("internal-error-escaped", rec, disc=type(e).__name__, exc=type(e).__name__,
                                msg=engine._exc_text(e)[:80]))

        # ---- ordered atoms: failed contacts, successful contacts, commands
        atoms = []
        seen_fail = set()       # one contact = one socket
        failed_in_call = set()
        for seq, nid, kind, cid, sid, now in w.health_log:
            if cid in by_cids:
                continue
            failed_in_call.add((cid, sid))
            if nid is None or sid in seen_fail:
                continue
            seen_fail.add(sid)
            atoms.append((seq, 0, "fail", nid, cid, kind, now))
        seen_ok = set()
        for seq, nid, cid, sid, now in w.ok_log:
            if cid in by_cids:
                continue
            # a send that succeeded in a call in which the same socket then failed is part of that failed contact;
            # earlier successful calls on a (pooled, long-lived) socket that fails later are real successes
            if (cid, sid) in seen_ok or (cid, sid) in failed_in_call:
                continue
            seen_ok.add((cid, sid))
            atoms.append((seq, 1, "ok", nid, cid, None, now))
        for rec in rcalls:
            for c in rec.commands:
                if c[2] is not None:
                    atoms.append((c[4], 2, "cmd", c[0], rec.id, c[2], rec.t0))
        # call-start markers (state as of the start of each call); calls are sequential, so ordering by
        # (call id, seq) is the global order
        atoms = [(a[4], a[0], a[1]) + a[2:] for a in atoms]
        for rec in rcalls:
            if rec.step >= 0:
                atoms.append((rec.id, -1, -1, "start", None, rec.id, None, rec.t0))
        atoms.sort(key=lambda a: (a[0], a[1], a[2]))
        atoms = [a[1:] for a in atoms]

        # down periods (by step order -> call ids)
        down_since = {}
        periods = {nid: [] for nid in nid_name}   # lists of contact times while down
        cur_down = {}
        health_at_call = {}
        # replay the steps to know each node's health at each call
        hstate = {nid: "up" for nid in nid_name}
        ci = 0
        step_health = {}
        for i, st in enumerate(scn["steps"]):
            if st["t"] == "node":
                hstate[st["id"]] = st.get("health", "up")
            elif st["t"] == "call":
                step_health[i] = dict(hstate)

        fails = {nid: 0 for nid in nid_name}
        evicting = {}
        out_since = {}
        contact_times = {nid: [] for nid in nid_name}   # (time, call id) of contacts while the node is down
        final = scn["final"]
        wk_rk = {}
        for rec in rcalls:
            if rec.step < 0:
                continue
            args, kwargs = res.extra["args"][rec.step]
            a0 = args[0]
            ks = list(a0.keys()) if isinstance(a0, dict) else (list(a0) if isinstance(a0, (list, tuple)) else [a0])
            for k in ks:
                wk_rk[prefix + (k.encode() if isinstance(k, str) else k)] = k
        for seq, _, kind, nid, cid, extra, now in atoms:
            rec = calls.get(cid)
            if rec is None or rec.step < 0:
                continue
            if kind == "start":
                # "while it is out its keys are served by the remaining servers": between the contact that took a
                # server out (its (retry_attempts+2)-th failed contact in a row) and dead_timeout later, a call on
                # one of its keys must reach some server, provided every other server is healthy and untroubled
                if rec.outcome == "raise" or not out_since:
                    continue
                others_fine = lambda i: all(                                      # noqa: E731
                    j == i or (step_health[rec.step][j] == "up" and fails[j] == 0 and not evicting.get(j)
                               and out_since.get(j) is None) for j in nid_name)
                served = {c[2] for c in rec.commands if c[2] is not None}
                a0 = res.extra["args"][rec.step][0][0]
                cks = list(a0.keys()) if isinstance(a0, dict) else (list(a0) if isinstance(a0, (list, tuple)) else [a0])
                for k in cks:
                    oi = name_nid[refhash.owner(names, k)]
                    t_out = out_since.get(oi)
                    if t_out is None or not (t_out < rec.t0 < t_out + dead - 8 * TICK) or not others_fine(oi):
                        continue
                    if prefix + (k.encode() if isinstance(k, str) else k) not in served:
                        out.append(viol("keys-of-evicted-server-not-served", rec, key=repr(k), server=nid_name[oi],
                                        out_for=round(rec.t0 - t_out, 4), dead_timeout=dead))
                        break
                continue
            if kind == "fail":
                evicting[nid] = False          # being contacted: it is in rotation right now
                fails[nid] += 1
                contact_times[nid].append((now, cid, rec.step))
                if fails[nid] == (ra + 2 if ra >= 1 else 1):
                    out_since[nid] = now          # this failed contact is the one that takes it out
                elif fails[nid] > (ra + 2 if ra >= 1 else 1):
                    out_since[nid] = None         # contacted again: it was put back into rotation
            elif kind == "ok":
                out_since[nid] = None
                if step_health[rec.step][nid] == "up":
                    # The call that takes a server out of rotation still contacts it once; if that contact
                    # happens to succeed the server is out nevertheless (until revived).  From outside this
                    # cannot be told from a successful retry, so after enough failures an ok contact leaves
                    # the server "possibly out" until it is contacted again.
                    evicting[nid] = ra >= 1 and fails[nid] >= ra + 1
                    fails[nid] = 0
                else:
                    contact_times[nid].append((now, cid, rec.step))
            else:
                rk = wk_rk.get(extra)
                if rk is None:
                    continue
                ranking = sorted(names, key=lambda n: (refhash.murmur3_x86_32(("%s-%s" % (n, rk)).encode("latin-1")), n),
                                 reverse=True)
                orig = ranking[0]
                here = nid_name[nid]
                if rec.step >= final and here != orig:
                    out.append(viol("placement-not-recovered-after-healing", rec, key=repr(rk), at=here, owner=orig))
                if here != orig:
                    oi = name_nid[orig]
                    need = 2 if ra >= 1 else 1
                    if fails[oi] < need and not evicting.get(oi):
                        out.append(viol("evicted-after-too-few-failures", rec, disc="fails=%d" % fails[oi],
                                        key=repr(rk), owner=orig, at=here, failed_contacts=fails[oi]))
                    for above in ranking[:ranking.index(here)]:
                        if fails[name_nid[above]] < 1 and not evicting.get(name_nid[above]):
                            out.append(viol("healthy-server-bypassed", rec, key=repr(rk), bypassed=above, at=here))
                            break

        # ---- rate bounds per down period
        for nid in nid_name:
            # split contacts by down period: a period ends when the node is 'up' at some later call
            ts = contact_times[nid]
            period = []
            last_step = None
            for t, cid, step in ts:
                # did the node come up between last_step and this step?
                if last_step is not None and any(scn["steps"][j]["t"] == "node" and scn["steps"][j]["id"] == nid and
                                                 scn["steps"][j].get("health", "up") == "up"
                                                 for j in range(last_step, step)):
                    self._rate(out, period, rt, dead, ra, nid_name[nid], calls)
                    period = []
                period.append((t, cid))
                last_step = step
            self._rate(out, period, rt, dead, ra, nid_name[nid], calls)
        out.sort(key=lambda v: (v["step"] if v["step"] is not None else -1))
        return out

    def _rate(self, out, period, rt, dead, ra, name, calls):
        ts = [t for t, _ in period]
        for i in range(len(ts) - 2):
            if ts[i + 2] - ts[i] < rt:
                rec = calls[period[i + 2][1]]
                out.append(viol("failing-server-contacted-too-often", rec, disc="retry_timeout-window",
                                server=name, times=[round(x - ts[0], 4) for x in ts[i:i + 3]], window=rt))
                break
        n = ra + 2
        for i in range(len(ts) - n):
            if ts[i + n] - ts[i] < dead:
                rec = calls[period[i + n][1]]
                out.append(viol("failing-server-contacted-too-often", rec, disc="dead_timeout-window",
                                server=name, times=[round(x - ts[0], 4) for x in ts[i:i + n + 1]], window=dead,
                                allowed=n))
                break

    def trace_key(self, scn, res):
        key = []
        failed_with_traffic = False
        later = False
        hmap = {}
        h = {}
        for i, st in enumerate(scn["steps"][:scn["heal"]]):
            if st["t"] == "node":
                h[st["id"]] = st.get("health", "up")
                key.append(("node", st["id"], h[st["id"]]))
            elif st["t"] == "advance":
                key.append(("adv", st["dt"]))
        fl = {}
        for seq, nid, kind, cid, _sid, _now in res.world.health_log:
            fl.setdefault(cid, set()).add(nid)
        for c in res.calls:
            if c.step < 0 or c.step >= scn["heal"]:
                continue
            if failed_with_traffic:
                later = True
            if c.id in fl:
                failed_with_traffic = True
            key.append((c.method, c.outcome if c.outcome == "return" else type(c.exc).__name__,
                        len({x[0] for x in c.commands}), tuple(sorted(fl.get(c.id, ())))))
        return tuple(key), (failed_with_traffic and later)

    def state_keys(self, scn, res):
        # abstract failover states visited (derived from the recorded history)
        w = res.world
        states = set()
        fails = {}
        h = {}
        last_contact = {}
        fl = {}
        for seq, nid, kind, cid, _sid, _now in w.health_log:
            fl.setdefault(cid, set()).add(nid)
        okl = {}
        for seq, nid, cid, _sid, _now in w.ok_log:
            okl.setdefault(cid, set()).add(nid)
        rt = scn["world"]["client_kwargs"]["retry_timeout"]
        calls = {c.step: c for c in res.calls}
        for i, st in enumerate(scn["steps"]):
            if st["t"] == "node":
                h[st["id"]] = st.get("health", "up") != "up"
            elif st["t"] == "call":
                c = calls.get(i)
                if c is None:
                    continue
                for nid in fl.get(c.id, ()):
                    if nid is not None:
                        fails[nid] = min(fails.get(nid, 0) + 1, 4)
                        last_contact[nid] = c.t0
                for nid in okl.get(c.id, ()):
                    if nid not in fl.get(c.id, ()) and not h.get(nid):
                        fails[nid] = 0
                states.add(hash(tuple((nid, h.get(nid, False), fails.get(nid, 0),
                                       (c.t0 - last_contact.get(nid, -1e9)) < rt)
                                      for nid in sorted(w.nodes))) & 0xFFFFFFFFFFFF)
        return states

    def probe_names(self):
        return ("server-evicted-and-traffic-rerouted", "server-revived-after-dead_timeout", "all-servers-failing",
                "retry-window-skipped-a-contact", "failure-kind-eof", "failure-kind-blackhole",
                "multi-key-call-hit-failing-server", "recovered-before-eviction", "ignore_exc-run",
                "bounded-exhaustive-sequence", "failure-kind-unreach")

    def probes(self, scn, res):
        p = {}
        w = res.world
        ck = scn["world"]["client_kwargs"]
        if ck.get("ignore_exc"):
            p["ignore_exc-run"] = 1
        if "enum" in scn:
            p["bounded-exhaustive-sequence"] = 1
        names = [refhash.node_name(codec.dec(s)) for s in scn["world"]["servers"]]
        nid_name = {n["id"]: names[i] for i, n in enumerate(scn["world"]["nodes"])}
        prefix = codec.dec(ck.get("key_prefix", E(b"")))
        fl = {}
        for seq, nid, kind, cid, _sid, _now in w.health_log:
            fl.setdefault(cid, set()).add(nid)
            if kind == "eof":
                p["failure-kind-eof"] = 1
            if kind == "blackhole":
                p["failure-kind-blackhole"] = 1
            if kind == "unreach":
                p["failure-kind-unreach"] = 1
        down_now = set()
        ever_failed = set()
        rerouted_from = set()
        hstate = {}
        calls = {c.step: c for c in res.calls}
        for i, st in enumerate(scn["steps"][:scn["heal"]]):
            if st["t"] == "node":
                if st.get("health", "up") == "up":
                    down_now.discard(st["id"])
                else:
                    down_now.add(st["id"])
                if len(down_now) == len(nid_name):
                    p["all-servers-failing"] = 1
            elif st["t"] == "call":
                c = calls.get(i)
                if c is None:
                    continue
                if c.id in fl:
                    ever_failed |= fl[c.id]
                    if c.method in MULTI:
                        p["multi-key-call-hit-failing-server"] = 1
                for cmd in c.commands:
                    if cmd[2] is None:
                        continue
                    rk = cmd[2][len(prefix):]
                    for cand in (rk, rk.decode("latin-1")):
                        pass
                    # rerouted?  compare with the owner under both spellings of the key
                    owners = {refhash.owner(names, rk), refhash.owner(names, rk.decode("latin-1"))}
                    if nid_name[cmd[0]] not in owners:
                        p["server-evicted-and-traffic-rerouted"] = 1
                        rerouted_from |= owners
                    elif nid_name[cmd[0]] in rerouted_from:
                        # its keys went elsewhere earlier and now reach it again: it is back in rotation
                        p["server-revived-after-dead_timeout"] = 1
                if down_now and not c.commands and c.id not in fl and c.outcome == "return":
                    p["retry-window-skipped-a-contact"] = 1
                if c.commands and ever_failed and any(cmd[0] in ever_failed for cmd in c.commands) and \
                        c.id not in fl:
                    p["recovered-before-eviction"] = 1
        return p


PROP = C13()

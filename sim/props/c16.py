"""C16 - PooledClient, single-server HashClient and RetryingClient behave like Client."""
import copy

from .. import engine, gen, codec, model
from ..world import EPOCH
from .base import Prop, viol

E = codec.enc
STACKS = ("pooled", "hash", "hash_pooled", "retrying")


class C16(Prop):
    id = "C16"
    level = "exploration"
    rule = ("work unit = one seed -> one list of 5-20 key-addressed operations (set add replace append prepend cas "
            "get gets gat gats get_many gets_many set_many delete delete_many incr decr touch, __setitem__/"
            "__getitem__/__delitem__ where offered) with an argument grid (noreply, expire, flags, default, "
            "cas_default, positional vs keyword) and a configuration grid (key_prefix, default_noreply, encoding, "
            "allow_unicode_keys, serde, timeouts), replayed on identically pre-loaded fresh worlds (hit, miss, cas "
            "mismatch, non-numeric states) through Client, PooledClient, HashClient([one]), pooled HashClient and "
            "RetryingClient(Client). Oracle per call: parsed command sequence received by the node and result or "
            "exception class equal Client's; final stores equal. distinct = (config, method/arg-shape sequence); "
            "non-trivial = at least one non-default configuration option and one call with optional arguments.")
    assumptions = ["input-driven, fault-free; RetryingClient is configured not to retry semantic errors "
                   "(attempts=1, or retry_for=(OSError,)) since retrying by design re-sends commands"]
    components = dict(Prop.components, real=Prop.components["real"] + ["pymemcache.client.retrying"])

    def plan(self, tier):
        if tier == "quick":
            return {"units": 20000, "budget_s": 90, "block": 100}
        return {"units": 600000, "budget_s": 1500, "block": 200}

    def gen(self, rng, idx, tier):
        nodes, servers = gen.node_specs(1, unix=rng.random() < 0.15, item_max=rng.choice([None, None, 100]))
        if rng.random() < 0.3:
            # the same server, spelt the other documented ways: "host:port", "host" (default port), "unix:/path"
            sv = codec.dec(servers[0])
            if isinstance(sv, tuple):
                servers[0] = E(rng.choice(["%s:%d" % sv, sv[0], sv[0], "[%s]:%d" % sv, "[%s]" % sv[0]]))
            else:
                servers[0] = E("unix:" + sv)
        ck = {}
        if rng.random() < 0.5:
            ck["key_prefix"] = E(rng.choice([b"p:", "strpfx-", b"x" * 100]))
        if rng.random() < 0.5:
            ck["default_noreply"] = rng.random() < 0.5
        if rng.random() < 0.4:
            ck["encoding"] = rng.choice(["utf-8", "ascii", "latin-1"])
        uni = rng.random() < 0.4
        if uni:
            ck["allow_unicode_keys"] = True
        sk = rng.choice(["none", "none", "pickle", "json", "compressed", "legacy", "legacy-half"])
        if sk == "pickle":
            ck["serde"] = {"$serde": {"kind": "pickle", "proto": rng.randint(0, 5)}}
        elif sk == "json":
            ck["serde"] = {"$serde": {"kind": "json"}}
        elif sk == "compressed":
            ck["serde"] = {"$serde": {"kind": "compressed", "min": rng.choice([1, 10, 400])}}
        elif sk == "legacy":          # the pre-serde serializer= / deserializer= function pair
            ck["serializer"] = {"$fn": "legacy_ser"}
            ck["deserializer"] = {"$fn": "legacy_deser"}
        elif sk == "legacy-half":
            ck[rng.choice(["serializer", "deserializer"])] = {"$fn": rng.choice(["legacy_ser"])} \
                if rng.random() < 0.5 else {"$fn": "legacy_deser"}
            if "serializer" in ck and ck["serializer"]["$fn"] != "legacy_ser":
                ck["deserializer"] = ck.pop("serializer")
            if "deserializer" in ck and ck["deserializer"]["$fn"] != "legacy_deser":
                ck["serializer"] = ck.pop("deserializer")
        if rng.random() < 0.3:
            ck["timeout"] = rng.choice([0.5, 3])
            ck["connect_timeout"] = rng.choice([None, 0.5])
        if rng.random() < 0.2:
            ck["no_delay"] = True
        w = {"stack": "client", "servers": servers, "nodes": nodes, "client_kwargs": ck,
             "knobs": {"recv_size": rng.choice(gen.RECV_SIZES)}, "check_timeouts": True,
             "retry_kwargs": rng.choice([{"attempts": 1}, {"attempts": 3, "retry_for": {"$t": [{"$exc": "OSError"}]}},
                                         {"attempts": 2, "retry_for": [{"$exc": "OSError"}], "retry_delay": 1}])}
        keys = [b"k1", "s2", b"n3", "m4"]
        if uni:
            keys.append("ключ")
        if "key_prefix" in ck and rng.random() < 0.2:
            keys[rng.randrange(len(keys))] = rng.choice([b"", ""])    # legal once the prefix is in front of it
        if rng.random() < 0.3:
            # legal keys that are not text at all: a raw digest, a Latin-1 byte
            keys[rng.randrange(len(keys))] = rng.choice([bytes.fromhex("9f86d081884c7d659a2feaa0c55ad015"),
                                                         b"caf\xe9", b"\xff\xfe\x80id"])
        enc = ck.get("encoding", "ascii")
        prefix = codec.dec(ck.get("key_prefix", E(b"")))
        if isinstance(prefix, str):
            prefix = prefix.encode()
        steps = []
        if rng.random() < 0.15:
            # a server that answers `set` for one key with NOT_STORED: the failed-keys list of set_many and the
            # False of set must come out of every stack the way they come out of Client
            k = rng.choice(keys)
            nodes[0]["opts"] = dict(nodes[0].get("opts") or {},
                                    refuse_set=[E(prefix + (k.encode("utf8") if isinstance(k, str) else k))])
        for k in keys:   # node states: hit / miss / numeric / non-numeric
            r = rng.random()
            wk = prefix + (k.encode("utf8") if isinstance(k, str) else k)
            if r < 0.35:
                steps.append({"t": "direct", "node": 0, "key": E(wk), "value": E(rng.choice([b"5", b"100", b"0"])),
                              "flags": rng.choice([0, 2])})
            elif r < 0.7:
                if sk.startswith("legacy"):
                    steps.append({"t": "direct", "node": 0, "key": E(wk), "value": E(rng.choice([b'{"k": [1, 2]}', b'"s"', b"17"])),
                                  "flags": rng.choice([7, 7, 0])})
                else:
                    steps.append({"t": "direct", "node": 0, "key": E(wk), "value": E(b"text-" + wk[-3:]),
                                  "flags": rng.choice([0, 16])})

        def value():
            if sk in ("pickle", "compressed"):
                return rng.choice([b"bytes", "text", "tëxt", 42, {"a": [1, 2]}, ("t", 1), None, 3.5, "x" * 50])
            if sk == "json":
                return rng.choice(["text", {"a": 1}, [1, 2], 7])
            if sk.startswith("legacy"):
                return rng.choice([b"bytes", {"a": [1, 2]}, [3, "x"], 12, "txt"]) if "serializer" in ck \
                    else rng.choice([b"bytes", b"7", b"[1, 2]"])
            vals = [b"bytes", "text", 42, b"x" * 150, b"7"]
            if enc != "ascii":
                vals.append("tëxt")
            return rng.choice(vals)

        def expire():
            return rng.choice([0, 10, 1000, int(EPOCH) + 500, -1])

        def store_args(a, k):
            style = rng.choice(["kw", "kw", "pos", "none"])
            e, nr, fl = expire(), rng.choice([True, False, None]), rng.choice([None, 0, 5, 65535])
            if style == "kw":
                if rng.random() < 0.6:
                    k["expire"] = e
                if rng.random() < 0.6:
                    k["noreply"] = nr
                if rng.random() < 0.4:
                    k["flags"] = fl
            elif style == "pos":
                a.append(e)
                if rng.random() < 0.6:
                    a.append(nr)
                    if rng.random() < 0.5:
                        a.append(fl)

        gets_steps = []
        for _ in range(rng.randint(5, 20)):
            m = rng.choice(["set", "add", "replace", "append", "prepend", "cas", "cas", "get", "get", "gets", "gets",
                            "gat", "gats", "get_many", "gets_many", "set_many", "delete", "delete_many", "incr",
                            "decr", "touch", "__setitem__", "__getitem__", "__delitem__"])
            key = rng.choice(keys)
            a, k = [], {}
            if m in ("set", "add", "replace", "append", "prepend"):
                a = [E(key), E(value())]
                store_args(a, k)
            elif m == "cas":
                cands = [g for g in gets_steps if g[1] == key]
                tok = {"$tok": [rng.choice(cands)[0], None]} if cands and rng.random() < 0.7 else \
                    E(rng.choice([b"1", 7, "999"]))
                a = [E(key), E(value()), tok]
                store_args(a, k)
            elif m == "get":
                a = [E(key)]
                r = rng.random()
                if r < 0.3:
                    a.append(E(b"dflt"))
                elif r < 0.6:
                    k["default"] = E(codec.Sentinel("D"))
            elif m == "gets":
                a = [E(key)]
                gets_steps.append((len(steps), key))
                r = rng.random()
                if r < 0.3:
                    k["default"] = E(b"d")
                    k["cas_default"] = E(b"0")
                elif r < 0.5:
                    a += [E(b"d"), E(b"c")]
                elif r < 0.6:
                    k["cas_default"] = E(0)
            elif m in ("gat", "gats"):
                a = [E(key)]
                r = rng.random()
                if r < 0.3:
                    a.append(expire())
                    if rng.random() < 0.5:
                        a.append(E(b"dflt"))
                elif r < 0.7:
                    k["expire"] = expire()
                    if rng.random() < 0.5:
                        k["default"] = E(b"dflt")
                    if m == "gats" and rng.random() < 0.4:
                        k["cas_default"] = E(b"c")
                if m == "gats":
                    gets_steps.append((len(steps), key))
            elif m in ("get_many", "gets_many"):
                ks = rng.sample(keys, rng.randint(0, len(keys)))
                if ks and rng.random() < 0.3:
                    ks = ks + [rng.choice(ks)]       # a repeated key
                    rng.shuffle(ks)
                if rng.random() < 0.03:
                    ks = ks + [b"mk%03d" % j for j in range(rng.randint(101, 160))]   # more than a hundred keys
                a = [E(ks)]
                if rng.random() < 0.2:
                    a = [{"$iter": [E(x) for x in ks]}]      # a one-shot iterator of keys
            elif m == "set_many":
                a = [E({kk: value() for kk in rng.sample(keys, rng.randint(1, 3))})]
                store_args(a, k)
            elif m == "delete":
                a = [E(key)]
                r = rng.random()
                if r < 0.3:
                    a.append(rng.choice([True, False]))
                elif r < 0.6:
                    k["noreply"] = rng.choice([True, False, None])
            elif m == "delete_many":
                dk = rng.sample(keys, rng.randint(0, 3))
                a = [E(dk)] if rng.random() < 0.8 else [{"$iter": [E(x) for x in dk]}]
                if rng.random() < 0.5:
                    k["noreply"] = rng.choice([True, False])
            elif m in ("incr", "decr"):
                a = [E(key), rng.choice([1, 10, 1000])]
                r = rng.random()
                if r < 0.3:
                    a.append(rng.choice([True, False]))
                elif r < 0.5:
                    k["noreply"] = rng.choice([True, False])
            elif m == "touch":
                a = [E(key)]
                r = rng.random()
                if r < 0.3:
                    a.append(expire())
                    if rng.random() < 0.5:
                        a.append(rng.choice([True, False]))
                elif r < 0.7:
                    k["expire"] = expire()
                    if rng.random() < 0.5:
                        k["noreply"] = rng.choice([True, False])
            elif m == "__setitem__":
                a = [E(key), E(value())]
            else:
                a = [E(key)]
            steps.append({"t": "call", "m": m, "a": a, "k": k})
            if rng.random() < 0.1:
                steps.append({"t": "advance", "dt": rng.choice([4, 40, 4000])})
        return [{"property": self.id, "world": w, "steps": steps}]

    def variant(self, scn, stack):
        v = copy.deepcopy(scn)
        w = v["world"]
        if stack == "hash_pooled":
            w["stack"] = "hash"
            w["client_kwargs"]["use_pooling"] = True
        else:
            w["stack"] = stack
        if stack == "retrying":
            w["inner"] = "client"
        else:
            w.pop("retry_kwargs", None)
        if w["stack"] == "hash":
            # HashClient offers no item syntax: express it through the equivalent method calls
            for st in v["steps"]:
                if st["t"] == "call" and st["m"].startswith("__"):
                    st["skip"] = True
        return v

    def observe(self, scn):
        res = engine.execute(scn, ())
        per = {}
        for c in res.calls:
            if c.step >= 0:
                per[c.step] = c
        return res, per

    def run(self, scn):
        base, bper = self.observe(scn)
        out = []
        base.extra["variants"] = {}
        for stack in STACKS:
            v = self.variant(scn, stack)
            vsteps = v["steps"]
            # HashClient has no __getitem__ etc.: drop those steps from both sides for this comparison
            skip = {i for i, st in enumerate(vsteps) if st.get("skip")}
            if skip:
                v["steps"] = [st if i not in skip else {"t": "advance", "dt": 0} for i, st in enumerate(vsteps)]
                b2 = copy.deepcopy(scn)
                b2["steps"] = [st if i not in skip else {"t": "advance", "dt": 0}
                               for i, st in enumerate(scn["steps"])]
                _, ref = self.observe(b2)
                refres = _
            else:
                ref, refres = bper, base
            res, per = self.observe(v)
            base.extra["variants"][stack] = res.digest
            # the configured timeouts reach the connection that does the work (observed at the socket seam)
            tobs = [o for o in res.world.obs if o["oracle"].startswith("wrong-timeout")]
            if tobs and not any(o["oracle"].startswith("wrong-timeout") for o in base.world.obs):
                o = tobs[0]
                out.append({"oracle": "timeouts-differ-from-client", "method": None, "disc": stack,
                            "step": max([c.step for c in res.calls if c.id == o.get("call")] + [0]),
                            "detail": {"stack": stack, "observed": {k: repr(v_)[:60] for k, v_ in o.items()}}})
            for step in sorted(ref):
                a, b = ref[step], per.get(step)
                d = self.diff(a, b)
                if d:
                    st = scn["steps"][step]
                    disc = stack
                    out.append({"oracle": "stack-differs-from-client", "method": a.method, "disc": disc,
                                "step": step, "detail": dict(d, stack=stack, args=codec.canon(st["a"])[:120],
                                                             kwargs=codec.canon(st["k"])[:120])})
                    break
            else:
                s1 = {k: v_[:3] for k, v_ in refres.world.nodes[0].snapshot().items()}
                s2 = {k: v_[:3] for k, v_ in res.world.nodes[0].snapshot().items()}
                if s1 != s2:
                    out.append({"oracle": "final-store-differs-from-client", "method": None, "disc": stack,
                                "step": len(scn["steps"]), "detail": {"stack": stack}})
        out.sort(key=lambda v: v["step"])
        base.violations = out
        base.digest = base.digest + "".join(base.extra["variants"][s][:6] for s in STACKS)
        return base

    def diff(self, a, b):
        if b is None:
            return {"why": "call missing"}
        ca = [(c[1], c[2], c[3]) for c in a.commands]
        cb = [(c[1], c[2], c[3]) for c in b.commands]
        if ca != cb:
            n = min(len(ca), len(cb))
            i = next((j for j in range(n) if ca[j] != cb[j]), n)
            return {"why": "commands", "client": repr(ca[i:i + 1])[:200], "other": repr(cb[i:i + 1])[:200]}
        if a.outcome != b.outcome:
            return {"why": "outcome", "client": a.enc_outcome(), "other": b.enc_outcome()}
        if a.outcome == "raise":
            if type(a.exc) is not type(b.exc):
                return {"why": "exception class", "client": a.enc_outcome(), "other": b.enc_outcome()}
            return None
        if not model.results_equal(a.value, b.value):
            return {"why": "result", "client": a.enc_outcome(), "other": b.enc_outcome()}
        return None

    def trace_key(self, scn, res):
        ck = scn["world"]["client_kwargs"]
        cfgk = tuple(sorted((k, codec.canon(v)[:30]) for k, v in ck.items()))
        shape = tuple((st["m"], len(st["a"]), tuple(sorted(st["k"]))) for st in scn["steps"] if st["t"] == "call")
        oc = tuple(c.outcome if c.outcome == "return" else type(c.exc).__name__ for c in res.calls if c.step >= 0)
        nontrivial = bool(ck) and any(len(st["a"]) > 2 or st["k"] for st in scn["steps"] if st["t"] == "call")
        return (cfgk, shape, oc), nontrivial

    def probe_names(self):
        return ("non-ascii-value-under-encoding", "positional-optional-args", "cas-with-real-token",
                "serde-configured", "unicode-key", "semantic-error-raised", "timeouts-configured")

    def probes(self, scn, res):
        p = {}
        ck = scn["world"]["client_kwargs"]
        if ck.get("serde"):
            p["serde-configured"] = 1
        if ck.get("timeout"):
            p["timeouts-configured"] = 1
        for st in scn["steps"]:
            if st["t"] != "call":
                continue
            if "tëxt" in codec.canon(st["a"]) or "t\\u00ebxt" in codec.canon(st["a"]):
                p["non-ascii-value-under-encoding"] = 1
            if len(st["a"]) > 2 or (st["m"] in ("gat", "gats", "touch", "delete", "get", "gets") and len(st["a"]) > 1):
                p["positional-optional-args"] = 1
            if "$tok" in codec.canon(st["a"]):
                p["cas-with-real-token"] = 1
            if "\\u043a" in codec.canon(st["a"]):
                p["unicode-key"] = 1
        for c in res.calls:
            if c.outcome == "raise":
                p["semantic-error-raised"] = 1
        return p


PROP = C16()

"""C17 - RetryingClient retries exactly as configured."""
import itertools

from .. import engine, gen, codec
from .base import Prop, viol

E = codec.enc
EXCS = ("XBase", "XSubA", "XSubB", "XUnrelated")
PARENTS = {"XBase": ("XBase",), "XSubA": ("XSubA", "XBase"), "XSubB": ("XSubB", "XBase"),
           "XUnrelated": ("XUnrelated",)}
SUBSETS = [tuple(c for i, c in enumerate(EXCS) if m >> i & 1) for m in range(16)]


def sequences(attempts):
    """All outcome sequences a wrapped call can show within `attempts` invocations."""
    out = []
    for k in range(attempts):
        for fails in itertools.product(EXCS, repeat=k):
            out.append(list(fails) + ["ok"])
    for fails in itertools.product(EXCS, repeat=attempts):
        out.append(list(fails))
    return out


def build_table():
    cells = []
    for attempts in range(1, 6):
        for seq in sequences(attempts):
            for rf in range(16):
                for dn in range(16):
                    if rf & dn:
                        continue      # overlap is an invalid configuration (checked separately)
                    cells.append((attempts, tuple(seq), rf, dn))
    return cells


def matches(exc_name, subset):
    return any(p in subset for p in PARENTS[exc_name])


def reference(attempts, seq, retry_for, do_not):
    """From the statement: -> (invocations, outcome index, sleeps)."""
    inv = 0
    for i, o in enumerate(seq):
        inv += 1
        if o == "ok":
            return inv, i, inv - 1
        last = inv >= attempts
        retry = (not retry_for or matches(o, retry_for)) and not (do_not and matches(o, do_not))
        if last or not retry:
            return inv, i, inv - 1
    return inv, len(seq) - 1, inv - 1


_TABLE = None
CELLS_PER_UNIT = 400


def table():
    global _TABLE
    if _TABLE is None:
        _TABLE = build_table()
    return _TABLE


class C17(Prop):
    id = "C17"
    level = "fault_enumeration"
    rule = ("the decision table {attempts 1..5} x {every outcome sequence of the wrapped call over an exception "
            "hierarchy Base, SubA(Base), SubB(Base), Unrelated, ending at the first success or after `attempts` "
            "failures} x {every retry_for subset} x {every disjoint do_not_retry_for subset} is enumerated cell by "
            "cell against a scripted inner client (a stub, declared below); spelling of the collections "
            "(tuple/list/set/None), retry_delay in {0, 0.25, 2} and call arguments are drawn from the seed per cell. "
            "Each unit also runs invalid configurations (attempts < 1, non-class / non-Exception members, a class "
            "in both lists) and end-to-end cells in which a real Client on a simulated node fails its first k "
            "attempts by injected socket faults. Oracle: a reference decision function written from the statement "
            "(invocation count, arguments forwarded, sleep log on the virtual clock, identity of returned / raised "
            "object). distinct = distinct table cells executed; non-trivial = cells with at least one failure.")
    state_measure = "fraction of decision-table cells executed (cells_total / cells_run in other_counters)"
    components = dict(Prop.components,
                      real=["pymemcache.client.retrying (RetryingClient)", "pymemcache.client.base.Client (end-to-end cells)"],
                      stub=["scripted inner client (sim.engine.ScriptedClient) for the decision-table cells"])
    assumptions = ["the stub inner client stands in for any wrapped client in the table cells; the end-to-end cells "
                   "use the real Client", "time.sleep is replaced by the virtual clock's sleep"]

    def plan(self, tier):
        n = (len(table()) + CELLS_PER_UNIT - 1) // CELLS_PER_UNIT
        if tier == "quick":
            return {"units": n, "budget_s": 120, "block": 8, "selfcheck_every": 997}
        return {"units": n * 6, "budget_s": 1500, "block": 8, "selfcheck_every": 997}

    def is_exhaustive(self, tier, truncated):
        return not truncated      # every cell of the decision table was executed

    def spell(self, rng, subset):
        if not subset:
            return rng.choice([None, E(()), []])
        items = [{"$exc": c} for c in subset]
        r = rng.random()
        if r < 0.34:
            return {"$t": items}
        if r < 0.67:
            return items
        return {"$set": items}

    def gen(self, rng, idx, tier):
        tab = table()
        n = (len(tab) + CELLS_PER_UNIT - 1) // CELLS_PER_UNIT
        base = (idx % n) * CELLS_PER_UNIT
        out = []
        for ci in range(base, min(base + CELLS_PER_UNIT, len(tab))):
            attempts, seq, rf, dn = tab[ci]
            rk = {"attempts": attempts, "retry_delay": rng.choice([0, 0.25, 2])}
            if rf or rng.random() < 0.5:
                rk["retry_for"] = self.spell(rng, SUBSETS[rf])
            if dn or rng.random() < 0.5:
                rk["do_not_retry_for"] = self.spell(rng, SUBSETS[dn])
            if rng.random() < 0.1:
                del rk["retry_delay"]
            m = rng.choice(["op", "op", "set", "get", "__setitem__", "__getitem__", "__delitem__",
                            rng.choice(["incr", "decr", "append", "prepend", "add", "replace", "touch", "cas",
                                        "get_many", "set_many", "delete_many", "flush_all", "gets", "delete"])])
            a = [E(rng.choice([b"k", "key", 1]))]
            k = {}
            if m in ("op", "set", "__setitem__"):
                a.append(E(rng.choice([b"v", {"x": 1}, None])))
            if m == "op" and rng.random() < 0.5:
                k["noreply"] = rng.choice([True, False])
            out.append({"property": self.id, "cell": ci,
                        "world": {"stack": "retrying_stub", "retry_kwargs": rk, "script": list(seq),
                                  "stub_inherits": rng.random() < 0.4, "stub_falsy": rng.random() < 0.15},
                        "steps": [{"t": "call", "m": m, "a": a, "k": k}]})
        # invalid configurations
        for _ in range(3):
            kind = rng.choice(["attempts", "nonclass", "nonexc", "overlap", "overlap"])
            rk = {"attempts": rng.randint(1, 3)}
            if kind == "attempts":
                rk["attempts"] = rng.choice([0, -1, -5])
            elif kind == "nonclass":
                rk[rng.choice(["retry_for", "do_not_retry_for"])] = [rng.choice(["x", 5, None])]
            elif kind == "nonexc":
                rk[rng.choice(["retry_for", "do_not_retry_for"])] = {"$t": [rng.choice(
                    [{"$exc": "KeyboardInterrupt"}, {"$cls": "int"}, {"$exc": "BaseException"}, {"$cls": "object"}])]}
            else:
                c = rng.choice(EXCS)
                other = [x for x in EXCS if x != c and rng.random() < 0.4]
                rk["retry_for"] = self.spell(rng, tuple([c] + other))
                rk["do_not_retry_for"] = self.spell(rng, tuple([c] + [x for x in EXCS if x not in other and x != c and rng.random() < 0.4]))
            out.append({"property": self.id, "invalid": kind,
                        "world": {"stack": "retrying_stub", "retry_kwargs": rk, "script": []},
                        "steps": [{"t": "call", "m": "op", "a": [], "k": {}}]})
        # histories: several calls through ONE RetryingClient; every call has its own budget of attempts
        for _ in range(3):
            attempts = rng.randint(1, 4)
            rf, dn = rng.randrange(16), rng.randrange(16)
            dn &= ~rf
            ncalls = rng.randint(2, 4)
            script = []
            for _c in range(ncalls):
                script.extend(rng.choice(sequences(attempts)))
            rk = {"attempts": attempts, "retry_delay": rng.choice([0, 0.25, 2])}
            if rf or rng.random() < 0.5:
                rk["retry_for"] = self.spell(rng, SUBSETS[rf])
            if dn or rng.random() < 0.5:
                rk["do_not_retry_for"] = self.spell(rng, SUBSETS[dn])
            late = rng.random() < 0.3
            names = [rng.choice(["late_op", "op"]) if late else "op" for _j in range(ncalls)]
            out.append({"property": self.id, "history": {"attempts": attempts, "rf": rf, "dn": dn},
                        "world": {"stack": "retrying_stub", "retry_kwargs": rk, "script": script,
                                  "stub_inherits": rng.random() < 0.3, "stub_late": late},
                        "steps": [{"t": "call", "m": names[j], "a": [E(b"k%d" % j)], "k": {}} for j in range(ncalls)]})
        # end-to-end: real Client, first k attempts fail by injected faults
        for _ in range(2):
            attempts = rng.randint(1, 4)
            kfail = rng.randint(0, attempts)
            delay = rng.choice([0, 0.25, 2])
            nodes, servers = gen.node_specs(1)
            ek = rng.choice(["recv", "connect", "sendall"])
            faults = [dict(rng.choice([f for f in gen.applicable_faults(ek) if f["kind"] != "eof"
                                       and f.get("err") not in ("overflow", "valueerror", "typeerror")]), at=[ek, i])
                      for i in range(kfail)]
            for f in faults:
                f.pop("sent", None)
            rf = rng.choice([None, [{"$exc": "OSError"}], [{"$exc": "MemcacheError"}]])
            rk = {"attempts": attempts, "retry_delay": delay}
            if rf is not None:
                rk["retry_for"] = rf
            out.append({"property": self.id, "e2e": {"attempts": attempts, "kfail": kfail, "delay": delay,
                                                     "rf": rf, "ek": ek},
                        "world": {"stack": "retrying", "inner": "client", "servers": servers, "nodes": nodes,
                                  "client_kwargs": {"default_noreply": False, "timeout": 1}, "retry_kwargs": rk},
                        "steps": [{"t": "direct", "node": 0, "key": E(b"k"), "value": E(b"v")},
                                  {"t": "call", "m": "get", "a": [E(b"k")], "k": {}, "faults": faults}]})
        return out

    def judge(self, scn, res):
        out = []
        w = res.world
        init = res.by_step(-1)
        if "invalid" in scn:
            kind = scn["invalid"]
            if init.outcome != "raise":
                out.append(viol("invalid-configuration-accepted", init, disc=kind,
                                cfg=codec.canon(scn["world"]["retry_kwargs"])[:200]))
            elif kind != "nonclass" and not isinstance(init.exc, ValueError):
                out.append(viol("invalid-configuration-wrong-error", init, disc=kind, exc=type(init.exc).__name__))
            return out
        if init.outcome == "raise":
            out.append(viol("valid-configuration-rejected", init, exc=type(init.exc).__name__,
                            msg=engine._exc_text(init.exc)[:100], cfg=codec.canon(scn["world"]["retry_kwargs"])[:200]))
            return out
        rk = scn["world"]["retry_kwargs"]
        delay = rk.get("retry_delay", 0)
        if "e2e" in scn:
            e = scn["e2e"]
            rec = res.by_step(1)
            attempts, kfail = e["attempts"], e["kfail"]
            # every injected fault is an OSError; retried unless retry_for excludes OSError
            retryable = e["rf"] is None or e["rf"][0]["$exc"] == "OSError"
            if kfail == 0:
                inv, ok = 1, True
            elif not retryable:
                inv, ok = 1, False
            else:
                inv = min(kfail + 1, attempts)
                ok = kfail < attempts
            fired = len(rec.fired)
            got_inv = fired + (1 if rec.outcome == "return" else 0)
            if got_inv != inv or (rec.outcome == "return") != ok:
                out.append(viol("end-to-end-retry-count-wrong", rec, disc=e["ek"], expected_invocations=inv,
                                got=got_inv, outcome=rec.enc_outcome()[:2], cfg=e))
            elif ok and rec.value != b"v":
                out.append(viol("end-to-end-result-wrong", rec, got=rec.enc_outcome()))
            elif w.clock.slept != [delay] * (inv - 1):
                out.append(viol("sleep-log-wrong", rec, disc="e2e", slept=w.clock.slept, expected=[delay] * (inv - 1)))
            return out
        if "history" in scn:
            return self.judge_history(scn, res, delay)
        rec = res.by_step(0)
        stub = w.stub
        seq = scn["world"]["script"]
        tab = table()
        attempts, _, rf, dn = tab[scn["cell"]]
        inv, oi, sleeps = reference(attempts, seq, SUBSETS[rf], SUBSETS[dn])
        if len(stub.calls) != inv:
            out.append(viol("invocation-count-wrong", rec, disc="%d-vs-%d" % (len(stub.calls), inv),
                            expected=inv, got=len(stub.calls), cell=[attempts, list(seq), SUBSETS[rf], SUBSETS[dn]]))
            return out
        if w.clock.slept != [delay] * sleeps:
            out.append(viol("sleep-log-wrong", rec, slept=w.clock.slept, expected=[delay] * sleeps,
                            cell=[attempts, list(seq), SUBSETS[rf], SUBSETS[dn]]))
        final = stub.produced[-1]
        if seq[oi] == "ok":
            if rec.outcome != "return" or rec.value is not final:
                if rec.method in ("__setitem__", "__delitem__") and rec.outcome == "return" and rec.value is None:
                    pass
                else:
                    out.append(viol("result-not-the-first-success", rec, got=rec.enc_outcome()))
        else:
            if rec.outcome != "raise" or rec.exc is not final:
                out.append(viol("raised-not-the-final-attempts-exception", rec, got=rec.enc_outcome(),
                                expected=seq[oi]))
        # arguments forwarded unchanged to every attempt
        args, kwargs = res.extra["args"][0]
        m = rec.method
        want_a, want_k = tuple(args), dict(kwargs)
        if m == "set":
            want_a = ("set",) + want_a
        elif m == "get":
            want_a = ("get",) + want_a
        elif m == "__setitem__":
            want_a, want_k = ("set",) + want_a, {"noreply": True}
        elif m == "__getitem__":
            want_a = ("get",) + want_a
        elif m == "__delitem__":
            want_a, want_k = ("delete",) + want_a, {"noreply": True}
        elif m != "op":
            want_a = (m,) + want_a        # the stub's named methods pass their own name on
        for a, k in stub.calls:
            if a != want_a or k != want_k:
                out.append(viol("arguments-not-forwarded-unchanged", rec, got=repr((a, k))[:200],
                                want=repr((want_a, want_k))[:200]))
                break
        return out

    def judge_history(self, scn, res, delay):
        """Several calls on one wrapper: the reference is applied call by call to the part of the script that
        call should consume; a call that consumed more or fewer invocations shifts everything after it."""
        out = []
        h = scn["history"]
        stub = res.world.stub
        script = list(scn["world"]["script"])
        pos = 0
        sleeps_total = 0
        late_seen = False
        for rec in res.calls:
            if rec.step < 0:
                continue
            if rec.method == "late_op":
                # a name the wrapper did not see at construction: the property says nothing about how often it is
                # tried; it only must not change how the ordinary calls after it are retried
                late_seen = True
                mine = res.extra["args"][rec.step][0][0]
                pos += sum(1 for a, _k in stub.calls if a and a[0] == mine)
                continue
            seq = (script[pos:pos + h["attempts"]] + ["ok"] * h["attempts"])[:h["attempts"]]
            inv, oi, sleeps = reference(h["attempts"], seq, SUBSETS[h["rf"]], SUBSETS[h["dn"]])
            want_ok = seq[oi] == "ok"
            produced = stub.produced[pos + oi] if pos + oi < len(stub.produced) else None
            if want_ok:
                bad = rec.outcome != "return" or rec.value is not produced
            else:
                bad = rec.outcome != "raise" or rec.exc is not produced
            if bad:
                out.append(viol("later-call-on-same-wrapper-retried-wrongly", rec, disc="call-%d" % rec.step,
                                expected_invocations=inv, expected=seq[oi], got=rec.enc_outcome(),
                                consumed_so_far=pos, cfg=h))
                return out
            pos += inv
            sleeps_total += sleeps
        if len(stub.calls) != pos:
            out.append(viol("invocation-count-wrong", res.calls[-1], disc="history", expected=pos, got=len(stub.calls)))
        elif not late_seen and res.world.clock.slept != [delay] * sleeps_total:
            out.append(viol("sleep-log-wrong", res.calls[-1], disc="history", slept=res.world.clock.slept,
                            expected=[delay] * sleeps_total))
        return out

    def trace_key(self, scn, res):
        if "history" in scn:
            return ("history", codec.canon(scn["history"]), tuple(scn["world"]["script"])), True
        if "cell" in scn:
            return ("cell", scn["cell"]), ("ok" != scn["world"]["script"][0])
        if "invalid" in scn:
            return ("invalid", codec.canon(scn["world"]["retry_kwargs"])), True
        return ("e2e", codec.canon(scn["e2e"])), scn["e2e"]["kfail"] > 0

    def state_keys(self, scn, res):
        return (scn["cell"],) if "cell" in scn else ()

    def probe_names(self):
        return ("retried-subclass-via-base-in-retry_for", "blocked-by-do_not_retry_for", "sleep-between-attempts",
                "last-attempt-failed-no-sleep-after", "invalid-config-rejected", "end-to-end-retry-after-socket-fault",
                "set-spelling", "magic-method-path", "call-after-a-call-that-exhausted-its-attempts")

    def probes(self, scn, res):
        p = {}
        if "invalid" in scn:
            p["invalid-config-rejected"] = 1
            return p
        if "e2e" in scn:
            if scn["e2e"]["kfail"] and len(res.world.clock.slept):
                p["end-to-end-retry-after-socket-fault"] = 1
            return p
        if "history" in scn:
            if any(c.outcome == "raise" for c in res.calls[:-1]):
                p["call-after-a-call-that-exhausted-its-attempts"] = 1
            return p
        tab = table()
        attempts, seq, rf, dn = tab[scn["cell"]]
        if res.world.clock.slept:
            p["sleep-between-attempts"] = 1
        if len(seq) == attempts and seq[-1] != "ok" and attempts > 1 and len(res.world.clock.slept) == attempts - 1:
            p["last-attempt-failed-no-sleep-after"] = 1
        if "XBase" in SUBSETS[rf] and any(s in ("XSubA", "XSubB") for s in seq[:-1]) and len(res.world.stub.calls) > 1:
            p["retried-subclass-via-base-in-retry_for"] = 1
        if dn and len(res.world.stub.calls) < min(len(seq), attempts):
            p["blocked-by-do_not_retry_for"] = 1
        if "$set" in codec.canon(scn["world"]["retry_kwargs"]):
            p["set-spelling"] = 1
        if scn["steps"][0]["m"].startswith("__"):
            p["magic-method-path"] = 1
        return p

    def sample(self, scn, res):
        s = Prop.sample(self, scn, res)
        return s


PROP = C17()

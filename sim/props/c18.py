"""C18 - FallbackClient: reads fall through in order, writes touch only the primary."""
from .. import engine, gen, codec, model
from ..world import EPOCH
from .base import Prop, viol

E = codec.enc
WRITES = ("set", "add", "replace", "append", "prepend", "cas", "delete", "incr", "decr", "touch", "flush_all")
READS = ("get", "get_many", "gets", "gets_many")


class C18(Prop):
    id = "C18"
    level = "exploration"
    rule = ("work unit = one seed -> a FallbackClient over 1-4 real Clients (fallbacks with ignore_exc=True), each on "
            "its own simulated server; per-server content assigned hit/miss per key (all 2^(caches x keys) "
            "assignments are reachable, small ones enumerated by index), fallback servers optionally down; then "
            "4-12 FallbackClient calls covering every method with varied arguments. Oracle: per-server command logs "
            "- a mutating call produces exactly one command, on the first server, carrying the caller's key, value, "
            "expire, noreply, cas / delta; a read visits servers 0,1,2.. in order, stops at the first that holds the "
            "key (first non-empty answer for multi-key reads), returns that server's value, and no later server is "
            "contacted. distinct = (number of caches, hit/miss matrix, method sequence); non-trivial = at least one "
            "read that fell through to a fallback and one write.")
    components = dict(Prop.components, real=Prop.components["real"] + ["pymemcache.fallback (FallbackClient)"])
    assumptions = ["the caches are real Client objects (not scripted stubs), so FallbackClient is checked against "
                   "what Client actually returns for a miss"]

    def plan(self, tier):
        if tier == "quick":
            return {"units": 100000, "budget_s": 90, "block": 500}
        return {"units": 3000000, "budget_s": 1500, "block": 1000}

    def gen(self, rng, idx, tier):
        nc = rng.randint(1, 4)
        nodes, servers = gen.node_specs(nc)
        per = [{}] + [{"ignore_exc": True} for _ in range(nc - 1)]
        ck = {"default_noreply": rng.random() < 0.5}
        if rng.random() < 0.3:
            ck["key_prefix"] = E(b"p:")
        if nc > 1 and rng.random() < 0.08:
            return self.gen_shared(rng, idx, nc, ck)
        if nc > 1 and rng.random() < 0.02:
            # a multi-key read of more than a hundred keys of which the primary holds only a few: its answer is
            # non-empty, so it is THE answer (no cache after it is consulted, nothing is merged in)
            pfx = codec.dec(ck.get("key_prefix", E(b"")))
            many = [b"m%03d" % j for j in range(rng.randint(101, 260))]
            held = rng.sample(many, rng.randint(1, 3))
            steps = []
            for ci in range(nc):
                for mk in (held if ci == 0 else many):
                    steps.append({"t": "direct", "node": ci, "key": E(pfx + mk), "value": E(b"c%d-" % ci + mk)})
            for _ in range(rng.randint(1, 3)):
                steps.append({"t": "call", "m": rng.choice(["get_many", "gets_many"]),
                              "a": [E(many if rng.random() < 0.7 else tuple(many))], "k": {}})
            w = {"stack": "fallback", "servers": servers, "nodes": nodes, "client_kwargs": ck,
                 "per_cache_kwargs": per, "knobs": {"recv_size": 4096}}
            return [{"property": self.id, "world": w, "steps": steps}]
        w = {"stack": "fallback", "servers": servers, "nodes": nodes, "client_kwargs": ck,
             "per_cache_kwargs": per, "knobs": {"recv_size": rng.choice(gen.RECV_SIZES)}}
        pickled = rng.random() < 0.1
        if pickled:
            ck["serde"] = {"$serde": {"kind": "pickle"}}     # cached values are Python objects, tuples among them
        pfx = codec.dec(ck.get("key_prefix", E(b"")))
        keys = [b"k1", "s2", b"n3"][:rng.randint(1, 3)]
        steps = []
        # hit/miss matrix: for small systems enumerate by index so every assignment is reached
        bits = nc * len(keys)
        matrix = (idx % (1 << bits)) if bits <= 8 and rng.random() < 0.6 else rng.getrandbits(bits)
        for ci in range(nc):
            for ki, k in enumerate(keys):
                if matrix >> (ci * len(keys) + ki) & 1:
                    wk = pfx + (k.encode() if isinstance(k, str) else k)
                    val = b"%d" % (10 * ci + ki) if k == b"n3" else b"val-c%d-%d" % (ci, ki)
                    st = {"t": "direct", "node": ci, "key": E(wk), "value": E(val)}
                    if pickled and k != b"n3" and rng.random() < 0.6:
                        import pickle as _p
                        obj = rng.choice([(None, "payload-c%d" % ci), (None, None), [], 0, ("err", None), {"c": ci}])
                        st["value"], st["flags"] = E(_p.dumps(obj, 2)), 1
                    steps.append(st)
        for ci in range(1, nc):
            if rng.random() < 0.12:
                steps.append({"t": "node", "id": ci, "health": rng.choice(["refuse", "eof", "blackhole"])})
        strict_down = None
        if nc > 1 and rng.random() < 0.12:
            # a fallback cache built WITHOUT ignore_exc (against the documented advice) whose server is taken down:
            # a read that gets as far as it fails with that cache's error; the cache stays where it is in the
            # order, and is consulted again by later reads (and answers again once its server is back)
            strict_down = rng.randrange(1, nc)
            per[strict_down] = {}
            steps.append({"t": "node", "id": strict_down, "health": rng.choice(["refuse", "refuse", "eof"])})
        if nc > 1 and rng.random() < 0.1:
            # the primary itself is unreachable: writes must fail (or be lost), never go to a fallback cache
            steps.append({"t": "node", "id": 0, "health": rng.choice(["refuse", "reset", "blackhole", "unreach"])})
        for _ in range(rng.randint(4, 12)):
            m = rng.choice(WRITES + READS + READS)
            if pickled and m in ("append", "prepend"):
                m = "set"          # gluing raw bytes onto a pickled payload only manufactures undecodable items
            key = rng.choice(keys)
            a, k = [], {}
            if m in ("set", "add", "replace", "append", "prepend"):
                a = [E(key), E(rng.choice([b"new", b"5", b""]))]
                r = rng.random()
                if r < 0.3:
                    a.append(rng.choice([0, 100]))
                    if rng.random() < 0.5:
                        a.append(rng.choice([True, False]))
                elif r < 0.6:
                    k["expire"] = rng.choice([0, 100, int(EPOCH) + 100])
                    if rng.random() < 0.5:
                        k["noreply"] = rng.choice([True, False])
            elif m == "cas":
                a = [E(key), E(b"casv"), E(rng.choice([b"1001", 5, "77"]))]
                if rng.random() < 0.5:
                    k["expire"] = 100
                if rng.random() < 0.5:
                    k["noreply"] = rng.choice([True, False])
            elif m == "delete":
                a = [E(key)]
                if rng.random() < 0.5:
                    k["noreply"] = rng.choice([True, False])
            elif m in ("incr", "decr"):
                a = [E(b"n3" if b"n3" in keys else key), rng.choice([1, 7, 0])]
                if rng.random() < 0.5:
                    k["noreply"] = rng.choice([True, False])
            elif m == "touch":
                a = [E(key)]
                if rng.random() < 0.6:
                    k["expire"] = rng.choice([0, 100])
                if rng.random() < 0.4:
                    k["noreply"] = rng.choice([True, False])
            elif m == "flush_all":
                if rng.random() < 0.7:
                    m = "get"
                    a = [E(key)]
                else:
                    if rng.random() < 0.5:
                        k["delay"] = rng.choice([0, 30])
                    if rng.random() < 0.5:
                        k["noreply"] = rng.choice([True, False])
            elif m in ("get", "gets"):
                a = [E(key)]
            else:
                a = [E(rng.sample(keys, rng.randint(1, len(keys))))]
            steps.append({"t": "call", "m": m, "a": a, "k": k})
            if strict_down is not None and rng.random() < 0.1:
                steps.append({"t": "node", "id": strict_down, "health": "up"})
                strict_down = None
            if rng.random() < 0.03:
                # connections are recycled (close() in a forked child, a periodic reconnect): the caches reconnect
                # on their next use and everything goes on as before
                steps.append({"t": "call", "m": "close", "a": [], "k": {}})
            if nc > 1 and rng.random() < 0.03:
                # the application changes the public `caches` list: a newer cache is put in front, the old
                # primary retired, the order reversed
                order = rng.choice([list(range(nc))[::-1], [nc - 1] + list(range(nc - 1)), list(range(1, nc)),
                                    list(range(1, nc)) + [0]])
                steps.append({"t": "recache", "order": order, "how": rng.choice(["assign", "inplace"])})
        return [{"property": self.id, "world": w, "steps": steps}]

    def gen_shared(self, rng, idx, nc, ck):
        """Several caches on ONE server, told apart by their key prefixes (a prefix / settings migration): the
        caches are still distinct caches, consulted in order, and writes still go through the first one only."""
        nodes, servers = gen.node_specs(1)
        prefixes = [b"v%d:" % (nc - i) for i in range(nc)]
        per = [{"key_prefix": E(prefixes[i]), **({"ignore_exc": True} if i else {})} for i in range(nc)]
        ck = dict(ck)
        ck.pop("key_prefix", None)
        w = {"stack": "fallback", "servers": servers * nc, "nodes": nodes, "client_kwargs": ck,
             "per_cache_kwargs": per, "knobs": {"recv_size": rng.choice(gen.RECV_SIZES)}}
        keys = [b"k1", "s2", b"n3"][:rng.randint(1, 3)]
        steps = []
        bits = nc * len(keys)
        matrix = rng.getrandbits(bits)
        for ci in range(nc):
            for ki, k in enumerate(keys):
                if matrix >> (ci * len(keys) + ki) & 1:
                    wk = prefixes[ci] + (k.encode() if isinstance(k, str) else k)
                    val = b"%d" % (10 * ci + ki) if k == b"n3" else b"val-c%d-%d" % (ci, ki)
                    steps.append({"t": "direct", "node": 0, "key": E(wk), "value": E(val)})
        for _ in range(rng.randint(4, 10)):
            m = rng.choice(("set", "add", "delete", "incr", "touch") + READS + READS)
            key = rng.choice(keys)
            a, k = [E(key)], {}
            if m in ("set", "add"):
                a.append(E(b"new"))
                k["noreply"] = rng.choice([True, False])
            elif m == "incr":
                a = [E(b"n3" if b"n3" in keys else key), 1]
            elif m in ("get_many", "gets_many"):
                a = [E(rng.sample(keys, rng.randint(1, len(keys))))]
            steps.append({"t": "call", "m": m, "a": a, "k": k})
        return [{"property": self.id, "world": w, "steps": steps, "shared": prefixes and [E(p) for p in prefixes]}]

    def judge_shared(self, scn, res):
        """Caches sharing a server: judged on the sequence of commands (verb, wire key) the server received."""
        out = []
        prefixes = [codec.dec(p) for p in scn["shared"]]

        def wk(ci, k):
            return prefixes[ci] + (k.encode() if isinstance(k, str) else k)

        for rec in res.calls:
            if rec.step < 0:
                continue
            args, kwargs = res.extra["args"][rec.step]
            m = rec.method
            snap = rec.extra["snap"][0]
            got = [(c[1], c[2]) for c in rec.commands]
            if m in WRITES:
                want = [(m.encode(), wk(0, args[0]))]
                if got != want:
                    out.append(viol("write-not-through-first-cache-only", rec, want=repr(want)[:160], got=repr(got)[:160]))
                continue
            keys = list(args[0]) if m in ("get_many", "gets_many") else [args[0]]
            verb = b"gets" if m in ("gets", "gets_many") else b"get"
            want = []
            for ci in range(len(prefixes)):
                want.extend((verb, wk(ci, k)) for k in keys)
                if any(wk(ci, k) in snap for k in keys):
                    break
            if got != want:
                out.append(viol("read-visited-wrong-caches", rec, disc="%s.shared-server" % m, want=repr(want)[:200],
                                got=repr(got)[:200]))
        out.sort(key=lambda v: v["step"])
        return out

    def hooks(self, scn):
        return (SnapHook(),)

    def judge(self, scn, res):
        if scn.get("shared"):
            return self.judge_shared(scn, res)
        out = []
        w = res.world
        ck = scn["world"]["client_kwargs"]
        pfx = codec.dec(ck.get("key_prefix", E(b"")))
        nc0 = len(scn["world"]["nodes"])

        def wk(k):
            return pfx + (k.encode() if isinstance(k, str) else k)

        per_kw = scn["world"]["per_cache_kwargs"]
        recache = [(i, st["order"]) for i, st in enumerate(scn["steps"]) if st["t"] == "recache"]
        strict = {i for i in range(1, nc0) if not (per_kw[i] or {}).get("ignore_exc")}
        stale = set()     # strict fallbacks that may still hold a connection from before their server went away
        for rec in res.calls:
            if rec.step < 0:
                continue
            order = list(range(nc0))
            for i, o in recache:
                if i < rec.step:
                    order = list(o)     # positions -> original cache (= server) index; always relative to the original
            nc = len(order)
            args, kwargs = res.extra["args"][rec.step]
            m = rec.method
            if m == "close":
                if rec.outcome == "raise":
                    out.append(viol("close-raised", rec, exc=type(rec.exc).__name__))
                continue
            # servers visited, in order (first socket event per server)
            visited = []
            for ev in w.events[rec.ev0:rec.ev1]:
                if ev[3] >= 0 and ev[4] in ("connect", "sendall"):
                    t = w.sockets[ev[3]].target
                    if t is not None and t not in visited:
                        visited.append(t)
            cmds = [(c[0], c[1], c[2], c[3]) for c in rec.commands]
            snap = rec.extra["snap"]
            health = rec.extra["health"]
            first = order[0]
            stale |= {ci for ci in strict if health[ci] != "up"}
            if m in WRITES:
                if visited not in ([first], []):
                    out.append(viol("write-touched-a-fallback-cache", rec, visited=visited, primary=first))
                    continue
                want = self.intent(m, args, kwargs, wk)
                got = [(c[1], c[2], c[3]) for c in cmds if c[0] == first]
                if health[first] != "up" or first in stale:
                    continue          # unreachable primary: the write is lost or raises; it stayed local, checked above
                if got != want:
                    out.append(viol("write-command-differs-from-call", rec, want=repr(want)[:200], got=repr(got)[:200]))
                continue
            # reads
            keys = list(args[0]) if m in ("get_many", "gets_many") else [args[0]]
            wks = [wk(k) for k in keys]
            stop = None
            stop_pos = None
            may_raise = []
            for pos, ci in enumerate(order):
                if ci in stale:
                    may_raise.append(pos)
                if health[ci] != "up":
                    continue
                if any(x in snap[ci] for x in wks):
                    stop = ci
                    stop_pos = pos
                    break
            expect_visit = list(order) if stop is None else list(order[:stop_pos + 1])
            if health[first] != "up" or (0 in order and health[0] != "up"):
                continue          # cache 0 is the only one built without ignore_exc: when it is down a read may raise
            may_raise = [p_ for p_ in may_raise if stop_pos is None or p_ <= stop_pos]
            stale -= set(visited)        # a read waits for its reply: the connection is proven good, or closed
            if may_raise and rec.outcome == "raise":
                # the read got as far as a fallback built without ignore_exc that is unreachable (or whose
                # connection died with its server): that cache's error is the outcome; every cache before it was
                # consulted, in order, and none after it
                if not any(visited == list(order[:p_ + 1]) for p_ in may_raise):
                    out.append(viol("read-visited-wrong-caches", rec, disc="%s.before-error" % m, visited=visited,
                                    expected=[list(order[:p_ + 1]) for p_ in may_raise]))
                continue
            if visited != expect_visit:
                disc = "stopped-early" if len(visited) < len(expect_visit) else "went-too-far"
                out.append(viol("read-visited-wrong-caches", rec, disc="%s.%s" % (m, disc), visited=visited,
                                expected=expect_visit))
                continue
            if stop is not None and rec.outcome == "return":
                serde = engine.make_serde(ck["serde"]) if ck.get("serde") else None

                def val(k, it):
                    return serde.deserialize(k, it[0], it[1]) if serde else it[0]
                if m in ("get", "gets"):
                    it = snap[stop][wks[0]]
                    want = val(keys[0], it) if m == "get" else (val(keys[0], it), b"%d" % it[3])
                else:
                    want = {}
                    for k, x in zip(keys, wks):
                        if x in snap[stop]:
                            it = snap[stop][x]
                            want[k] = val(k, it) if m == "get_many" else (val(k, it), b"%d" % it[3])
                if not model.results_equal(want, rec.value):
                    out.append(viol("read-returned-wrong-value", rec, want=repr(want)[:120], got=rec.enc_outcome()))
            if rec.outcome == "raise":
                out.append(viol("read-raised", rec, exc=type(rec.exc).__name__, msg=engine._exc_text(rec.exc)[:80]))
        out.sort(key=lambda v: v["step"])
        return out

    def intent(self, m, args, kwargs, wk):
        """The single command a FallbackClient write means (signature defaults: expire=0, noreply=True)."""
        def arg(i, name, default):
            if len(args) > i:
                return args[i]
            return kwargs.get(name, default)
        if m in ("set", "add", "replace", "append", "prepend"):
            d = args[1]
            return [(m.encode(), wk(args[0]), (0, arg(2, "expire", 0), len(d), None, bool(arg(3, "noreply", True)), d))]
        if m == "cas":
            d = args[1]
            return [(b"cas", wk(args[0]), (0, arg(3, "expire", 0), len(d), int(args[2]), bool(arg(4, "noreply", True)), d))]
        if m == "delete":
            return [(b"delete", wk(args[0]), (bool(arg(1, "noreply", True)),))]
        if m in ("incr", "decr"):
            return [(m.encode(), wk(args[0]), (args[1], bool(arg(2, "noreply", True))))]
        if m == "touch":
            return [(b"touch", wk(args[0]), (arg(1, "expire", 0), bool(arg(2, "noreply", True))))]
        if m == "flush_all":
            return [(b"flush_all", None, (arg(0, "delay", 0), bool(arg(1, "noreply", True))))]
        raise AssertionError(m)

    def trace_key(self, scn, res):
        nc = len(scn["world"]["nodes"])
        matrix = tuple(sorted((st["node"], codec.canon(st["key"])) for st in scn["steps"] if st["t"] == "direct"))
        ms = tuple((c.method, len({x[0] for x in c.commands})) for c in res.calls if c.step >= 0)
        fell = any(c.method in READS and len({x[0] for x in c.commands}) > 1 for c in res.calls)
        wrote = any(c.method in WRITES for c in res.calls)
        return (nc, matrix, ms), (fell and wrote)

    def probe_names(self):
        return ("read-fell-through-to-last-cache", "read-answered-by-primary", "all-caches-miss",
                "gets-fell-through", "multi-key-read-first-non-empty", "fallback-server-down-skipped",
                "four-caches", "write-while-primary-unreachable", "read-failed-at-strict-fallback",
                "strict-fallback-consulted-again")

    def probes(self, scn, res):
        p = {}
        nc = len(scn["world"]["nodes"])
        if nc == 4:
            p["four-caches"] = 1
        for c in res.calls:
            if c.step >= 0 and c.method in WRITES and c.extra.get("health", {}).get(0, "up") != "up":
                p["write-while-primary-unreachable"] = 1
            if c.step < 0 or c.method not in READS:
                continue
            if c.outcome == "raise" and c.extra.get("health", {}).get(0, "up") == "up":
                p["strict-fallback-consulted-again" if "read-failed-at-strict-fallback" in p
                  else "read-failed-at-strict-fallback"] = 1
            nodes = sorted({x[0] for x in c.commands})
            if nodes == [0] and c.value not in (None, (None, None), {}, []):
                p["read-answered-by-primary"] = 1
            if nc > 1 and nodes and nodes[-1] == nc - 1 and c.value not in (None, (None, None), {}, []):
                p["read-fell-through-to-last-cache"] = 1
            if c.value in (None, (None, None), [], {}) and len(nodes) == nc:
                p["all-caches-miss"] = 1
            if c.method == "gets" and len(nodes) > 1:
                p["gets-fell-through"] = 1
            if c.method in ("get_many", "gets_many") and len(nodes) > 1 and c.value:
                p["multi-key-read-first-non-empty"] = 1
            if any(h != "up" for h in c.extra.get("health", {}).values()) and len(nodes) >= 1:
                p["fallback-server-down-skipped"] = 1
        return p


class SnapHook:
    def before_call(self, world, res, rec):
        rec.extra["snap"] = {nid: n.snapshot() for nid, n in world.nodes.items()}
        rec.extra["health"] = {nid: n.health for nid, n in world.nodes.items()}

    def after_call(self, world, res, rec):
        pass


PROP = C18()

"""C19 - ElastiCache auto-discovery: rotation equals the advertised node list."""
from .. import engine, gen, codec, refhash
from .base import Prop, viol, ownership_violations

E = codec.enc
CFG_HOST = "my-cluster.abc123.cfg.use1.cache.amazonaws.com"
CFG_IP = "10.9.0.1"
MAXN = 8


NREPL = 2       # indexes 8, 9: the machines that REPLACE nodes 2 and 3 (same name and port, new address)


def _machine(i):
    # nodes 6 and 7 run on the machines of nodes 0 and 1 (same fqdn and ip), on ports of their own;
    # nodes 8 and 9 carry the names of nodes 2 and 3
    return i - 6 if i >= 6 else i


def fqdn(i):
    # cluster ids may contain hyphens
    return "my-cluster.abc123.%04d.use1.cache.amazonaws.com" % (_machine(i) + 1)


def ip(i):
    if i >= MAXN:
        return "10.9.2.%d" % (_machine(i) + 1)
    return "10.9.1.%d" % (_machine(i) + 1)


def port(i):
    if i >= MAXN:
        return port(i - 6)
    if i >= 6:
        return 11400 + i
    return 11211 if i % 3 else 11300 + i


NODE_INDEX = {(fqdn(i), ip(i), port(i)): i for i in range(MAXN + NREPL)}


class C19(Prop):
    id = "C19"
    level = "exploration"
    rule = ("work unit = one seed -> a simulated ElastiCache cluster (configuration endpoint + up to 8 cache nodes "
            "with fqdn, ip, port) and an AWSElastiCacheHashClient (use_vpc on/off, pooled or not): construct, route "
            "a key corpus with set / get / get_many / delete, then 1-4 reconfigurations (advertised list grows, "
            "shrinks, is replaced; 1-6 nodes) each followed by reconfigure_nodes() and the corpus again; the 'config "
            "get cluster' reply is delivered under seeded segmentations; the endpoint sometimes answers ERROR. "
            "Oracle after construction and after every reconfiguration: each command lands on an advertised node, "
            "reached by ip or by fqdn as use_vpc says and on the advertised port, on the reference owner over "
            "exactly the advertised list; nothing reaches a node no longer advertised; sockets to replaced nodes "
            "and to the endpoint are closed; an ERROR endpoint raises MemcacheUnknownCommandError. distinct = "
            "(use_vpc, sequence of advertised sets, reply piece counts); non-trivial = at least one scale-down or "
            "replacement followed by routed traffic.")
    components = dict(Prop.components, real=Prop.components["real"] + ["pymemcache.client.ext.aws_ec_client"],
                      simulated=Prop.components["simulated"] + ["ElastiCache configuration endpoint (SimNode 'config get cluster')"])
    assumptions = ["the endpoint's reply format follows the AWS auto-discovery documentation "
                   "(CONFIG cluster 0 <len>\\r\\n<version>\\n<fqdn|ip|port> ...\\n\\r\\nEND\\r\\n)"]

    def plan(self, tier):
        if tier == "quick":
            return {"units": 20000, "budget_s": 90, "block": 100}
        return {"units": 1200000, "budget_s": 1500, "block": 200}

    def cluster(self, version, ids):
        return {"version": version, "nodes": [[fqdn(i), ip(i), port(i)] for i in ids]}

    def gen(self, rng, idx, tier):
        nodes = [{"id": 0, "addrs": [[CFG_IP, 11211]], "opts": {}}]
        resolver = {CFG_HOST: [["inet", CFG_IP]]}
        for i in range(MAXN + NREPL):
            nodes.append({"id": i + 1, "addrs": [[ip(i), port(i)]]})
            if i < MAXN:
                resolver[fqdn(i)] = [["inet", ip(i)]]
        use_vpc = rng.random() < 0.5
        # use_vpc as configuration files deliver it: the bool, or the integers 1 / 0
        ck = {"use_vpc": (use_vpc if rng.random() < 0.7 else int(use_vpc)), "default_noreply": False, "timeout": 1,
              "connect_timeout": 1}
        if rng.random() < 0.3:
            ck["use_pooling"] = True
        if rng.random() < 0.3:
            ck["key_prefix"] = E(b"p:")
        if rng.random() < 0.25:
            ck["ignore_exc"] = True        # says nothing about discovery: an ERROR endpoint must still be reported
        first = sorted(rng.sample(range(MAXN), rng.randint(1, 6)))
        version = rng.choice([1, 1, 7, 8, 9, 98, 99, 999])      # real endpoints bump it on every change
        err_first = rng.random() < 0.06
        nodes[0]["opts"]["cluster"] = "error" if err_first else self.cluster(version, first)
        w = {"stack": "aws", "cfg_node": "%s:11211" % CFG_HOST, "nodes": nodes, "resolver": resolver,
             "client_kwargs": ck, "knobs": {"recv_size": rng.choice([4096, 4096, 64, 7, 1]),
                                            "log_debug": rng.random() < 0.15},
             "init": {"net": gen.gen_net(rng, 0.7) or {}}}
        if rng.random() < 0.12:
            w["tls"] = True          # a TLS context is configured as well: it says nothing about ip versus name
        keys = [rng.choice([b"k%d" % j, "s%d" % j, b"user:%d" % j]) for j in range(rng.randint(4, 10))]
        steps = []

        def corpus():
            for _ in range(rng.randint(3, 8)):
                m = rng.choice(["set", "get", "get", "get_many", "delete", "set_many", "broadcast"])
                if m == "broadcast":
                    # operations that go to every server the client knows
                    bm = rng.choice(["flush_all", "stats", "close", "quit"])
                    steps.append({"t": "call", "m": bm, "a": [], "k": {}, "tag": "broadcast"})
                    continue
                if m == "set":
                    steps.append({"t": "call", "m": "set", "a": [E(rng.choice(keys)), E(b"v")], "k": {}})
                elif m in ("get", "delete"):
                    steps.append({"t": "call", "m": m, "a": [E(rng.choice(keys))], "k": {}})
                elif m == "get_many":
                    steps.append({"t": "call", "m": m, "a": [E(rng.sample(keys, rng.randint(1, len(keys))))], "k": {}})
                else:
                    steps.append({"t": "call", "m": m, "a": [E({k: b"mv" for k in rng.sample(keys, rng.randint(1, 4))})],
                                  "k": {}})

        hist = [None if err_first else first]
        if not err_first:
            corpus()
            cur = first
            if len(cur) >= 2 and rng.random() < 0.25:
                # a node dies, failover takes it out of rotation, then the cluster is scaled down without it;
                # later (after dead_timeout) it must not come back into rotation
                victim = rng.choice(cur)
                vnames = ["%s:%s" % (ip(i) if use_vpc else fqdn(i), port(i)) for i in cur]
                vname = "%s:%s" % (ip(victim) if use_vpc else fqdn(victim), port(victim))
                owned = [k for k in keys if refhash.owner(vnames, k) == vname]
                if owned:
                    steps.append({"t": "node", "id": victim + 1, "health": rng.choice(["refuse", "reset"])})
                    for _ in range(5):
                        steps.append({"t": "call", "m": "get", "a": [E(rng.choice(owned))], "k": {}, "tag": "preamble"})
                        steps.append({"t": "advance", "dt": 1.5})
                    if rng.random() < 0.5:
                        # the machine answers again and a broadcast operation (which goes to every client the
                        # HashClient knows, dead ones included) re-opens a connection to it - a connection to a node
                        # that is about to be replaced
                        steps.append({"t": "node", "id": victim + 1, "health": "up"})
                        steps.append({"t": "call", "m": rng.choice(["flush_all", "stats"]), "a": [], "k": {},
                                      "tag": "broadcast"})
                    new = [i for i in cur if i != victim]
                    if len(new) > 1 and rng.random() < 0.6:
                        # ... and other nodes leave the cluster in the same reconfiguration
                        new = sorted(rng.sample(new, rng.randint(1, len(new) - 1)))
                    version += 1
                    steps.append({"t": "cluster", "node": 0, "cluster": self.cluster(version, new)})
                    steps.append({"t": "call", "m": "reconfigure_nodes", "a": [], "k": {}, "tag": "reconf", "adv": new})
                    cur = new
                    hist.append(new)
                    corpus()
                    steps.append({"t": "advance", "dt": rng.choice([61, 70, 130])})
                    corpus()
                    if rng.random() < 0.5:
                        steps.append({"t": "advance", "dt": 70})
                        corpus()
                    # the machine is repaired before it can be advertised again
                    steps.append({"t": "node", "id": victim + 1, "health": "up"})
            for _ in range(rng.randint(1, 4)):
                kind = rng.choice(["grow", "shrink", "shrink", "replace", "same", "error", "machine"])
                swap = [i for i in cur if _machine(i) in (2, 3) and (i >= MAXN or i < 6)]
                if kind == "machine" and swap:
                    # a node is replaced by a new machine under the SAME name and port: only its address changes
                    # (DNS follows); connections to the old machine are connections to a replaced node
                    i = rng.choice(swap)
                    j = i + 6 if i < MAXN else i - 6
                    new = sorted(j if x == i else x for x in cur)
                elif kind == "grow":
                    have = {_machine(x) for x in cur if x >= MAXN}
                    add = [x for x in rng.sample(range(MAXN), rng.randint(1, 2)) if x not in have]
                    new = sorted(set(cur) | set(add))[:6]
                elif kind == "shrink" and len(cur) > 1:
                    new = sorted(rng.sample(cur, rng.randint(1, len(cur) - 1)))
                elif kind == "replace":
                    new = sorted(rng.sample(range(MAXN), rng.randint(1, 6)))
                else:
                    new = list(cur)
                version += 1
                if kind == "error":
                    steps.append({"t": "cluster", "node": 0, "cluster": "error"})
                    steps.append({"t": "call", "m": "reconfigure_nodes", "a": [], "k": {}, "tag": "reconf-error"})
                    hist.append(None)
                    break
                steps.append({"t": "cluster", "node": 0, "cluster": self.cluster(version, new)})
                st = {"t": "call", "m": "reconfigure_nodes", "a": [], "k": {}, "tag": "reconf", "adv": new}
                net = gen.gen_net(rng, 0.7)
                if net:
                    st["net"] = net
                steps.append(st)
                hist.append(new)
                cur = new
                if rng.random() < 0.2:
                    steps.append({"t": "advance", "dt": rng.choice([2, 70])})
                corpus()
        if not err_first and hist[-1] is not None:
            cur = hist[-1]
            vn = {i: "%s:%s" % (ip(i) if use_vpc else fqdn(i), port(i)) for i in cur}
            r = rng.random()
            if r < 0.12:
                # two callers: the first is still waiting for the endpoint's answer when a second one asks for a
                # reconfiguration of its own and then reads - the second's reads follow the list advertised to it
                new = sorted(rng.sample(range(MAXN), rng.randint(1, 6)))
                if set(new) != set(cur):
                    version += 1
                    steps.append({"t": "cluster", "node": 0, "cluster": self.cluster(version, new)})
                    calls = [{"m": "reconfigure_nodes", "a": [], "k": {}}]
                    calls += [{"m": "get", "a": [E(k)], "k": {}} for k in rng.sample(keys, min(3, len(keys)))]
                    steps.append({"t": "call", "m": "reconfigure_nodes", "a": [], "k": {}, "tag": "reconf", "adv": new,
                                  "net": {"seg": [rng.choice([7, 20, 33]), 0]},
                                  "faults": [{"at": ["recv", rng.choice([0, 1])], "kind": "yield", "calls": calls}]})
                    hist.append(new)
                    corpus()
            elif r < 0.24 and len(cur) >= 2:
                # two callers on one pooled node: the second finishes and leaves its connection idle in the pool,
                # then the first one's connection is reset (the node is now in its retry window with an idle
                # connection still pooled); the node is then scaled away
                ck["use_pooling"] = True
                victim = rng.choice(cur)
                owned = [k for k in keys if refhash.owner(list(vn.values()), k) == vn[victim]]
                if owned:
                    steps.append({"t": "call", "m": "get", "a": [E(rng.choice(owned))], "k": {}, "tag": "faulted",
                                  "faults": [{"at": ["recv", 0], "kind": "yield", "then": {"kind": "reset"},
                                              "calls": [{"m": "get", "a": [E(rng.choice(owned))], "k": {}}]}]})
                    new = [i for i in cur if i != victim]
                    version += 1
                    steps.append({"t": "cluster", "node": 0, "cluster": self.cluster(version, new)})
                    steps.append({"t": "call", "m": "reconfigure_nodes", "a": [], "k": {}, "tag": "reconf", "adv": new})
                    hist.append(new)
                    corpus()
        return [{"property": self.id, "world": w, "steps": steps, "first": None if err_first else first}]

    def advertised_before(self, scn, step):
        """Node indexes the endpoint advertises when step `step` runs (derived from the cluster steps, so the
        answer stays right when the minimiser drops steps)."""
        cl = scn["world"]["nodes"][0]["opts"].get("cluster")
        for st in scn["steps"][:step]:
            if st["t"] == "cluster":
                cl = st["cluster"]
        if not isinstance(cl, dict):
            return None
        return [NODE_INDEX[(n[0], n[1], int(n[2]))] for n in cl["nodes"]]

    def judge(self, scn, res):
        out = []
        w = res.world
        ck = scn["world"]["client_kwargs"]
        use_vpc = ck["use_vpc"]
        prefix = codec.dec(ck.get("key_prefix", E(b"")))
        MUCE = engine.pymemcache.exceptions.MemcacheUnknownCommandError
        init = res.by_step(-1)

        def names_of(ids):
            return {("%s:%s" % (ip(i) if use_vpc else fqdn(i), port(i))): i + 1 for i in ids}

        def check_sockets(rec, adv):
            allowed = {i + 1 for i in adv}
            end = w.events[rec.ev1 - 1][0] if rec.ev1 else 0
            bad = [(s.id, s.target) for s in w.sockets
                   if s.created_seq <= end and not s.closed_by_seq(end) and s.target not in allowed]
            if bad:
                out.append(viol("socket-to-unadvertised-node-left-open", rec,
                                disc="endpoint" if any(t == 0 for _, t in bad) else "cache-node", socks=bad[:4]))

        def routed(rec, args, names, disc=None):
            n0 = len(out)
            a0 = args[0]
            ks = list(a0.keys()) if isinstance(a0, dict) else (list(a0) if isinstance(a0, list) else [a0])
            want = {}
            for k in ks:
                wk = prefix + (k.encode() if isinstance(k, str) else k)
                want[wk] = names[refhash.owner(list(names), k)]
            for c in rec.commands:
                if c[2] is None:
                    continue
                if c[0] not in names.values():
                    out.append(viol("command-reached-unadvertised-node", rec, node=c[0], advertised=sorted(names.values())))
                elif want.get(c[2]) != c[0]:
                    out.append(viol("command-not-at-owner-over-advertised-list", rec, key=repr(c[2]), node=c[0],
                                    owner=want.get(c[2])))
            got_keys = {c[2] for c in rec.commands}
            if set(want) - got_keys:
                out.append(viol("key-not-routed", rec, missing=[repr(x) for x in sorted(set(want) - got_keys)][:4]))
            # reached by ip or by fqdn as use_vpc says
            for ev in w.events[rec.ev0:rec.ev1]:
                if ev[4] == "getaddrinfo":
                    host = ev[5][0]
                    is_ip = host[0].isdigit()
                    if is_ip != bool(use_vpc):
                        out.append(viol("wrong-address-kind-for-use_vpc", rec, host=host, use_vpc=use_vpc))
            if disc is not None:
                for v_ in out[n0:]:
                    v_["disc"] = disc

        adv = self.advertised_before(scn, 0)
        if adv is None:
            if init.outcome != "raise" or not isinstance(init.exc, MUCE):
                out.append(viol("error-endpoint-not-reported-as-memcached-error", init, disc="constructor",
                                got=init.enc_outcome()))
            return out
        if init.outcome == "raise":
            out.append(viol("discovery-failed", init, disc="constructor", got=init.enc_outcome(),
                            pieces=init.pieces[:20]))
            return out
        check_sockets(init, adv)
        for rec in res.calls:
            if rec.step < 0:
                continue
            st = scn["steps"][rec.step]
            tag = st.get("tag")
            if tag in ("preamble", "faulted"):
                continue      # (faulted: a fault was injected into this very call: its own outcome is not the subject)
            if tag in ("reconf", "reconf-error"):
                tag = "reconf" if self.advertised_before(scn, rec.step) is not None else "reconf-error"
            if tag == "reconf-error":
                if rec.outcome != "raise" or not isinstance(rec.exc, MUCE):
                    out.append(viol("error-endpoint-not-reported-as-memcached-error", rec, disc="reconfigure",
                                    got=rec.enc_outcome()))
                break
            if tag == "reconf":
                if rec.outcome == "raise":
                    out.append(viol("discovery-failed", rec, disc="reconfigure", got=rec.enc_outcome(),
                                    pieces=rec.pieces[:20]))
                    break
                adv = self.advertised_before(scn, rec.step)     # the truth is what the endpoint advertised
                check_sockets(rec, adv)
                continue
            names = names_of(adv)
            if tag == "broadcast":
                allowed = set(names.values())
                touched = []
                for ev in w.events[rec.ev0:rec.ev1]:
                    if ev[3] >= 0 and ev[4] in ("connect", "sendall"):
                        t = w.sockets[ev[3]].target
                        if t not in allowed and t not in touched:
                            touched.append(t)
                if touched:
                    out.append(viol("broadcast-reached-unadvertised-node", rec, nodes=touched,
                                    advertised=sorted(allowed)))
                check_sockets(rec, adv)
                continue
            down = {st2["id"] for st2 in () }
            health = {}
            for st2 in scn["steps"][:rec.step]:
                if st2["t"] == "node":
                    health[st2["id"]] = st2.get("health", "up")
            adv_down = [i for i in adv if health.get(i + 1, "up") != "up"]
            if rec.outcome == "raise" and adv_down and isinstance(rec.exc, OSError):
                continue      # an advertised node is really down: its connection error is the expected outcome
            if rec.outcome == "raise":
                out.append(viol("routed-call-raised", rec, disc=type(rec.exc).__name__, exc=type(rec.exc).__name__,
                                msg=engine._exc_text(rec.exc)[:100], advertised=sorted(names)))
                continue
            args, kwargs = res.extra["args"][rec.step]
            routed(rec, args, names)
            check_sockets(rec, adv)
        # calls made by a second caller while the first was parked inside a socket call (yield faults): after the
        # second caller's own reconfigure_nodes() returned, its reads follow the list advertised at that moment
        pending = []
        for rec in res.calls:
            if rec.step == -2:
                pending.append(rec)
                continue
            if rec.step < 0 or not pending:
                continue
            adv_n = self.advertised_before(scn, rec.step)
            mine, pending = pending, []
            if adv_n is None or not any(r_.method == "reconfigure_nodes" and r_.outcome == "return" for r_ in mine):
                continue
            n1 = len(out)
            for r_ in mine:
                if r_.method == "get" and r_.outcome == "return":
                    routed(r_, r_.extra["nested_args"][0], names_of(adv_n), disc="second-caller")
                elif r_.outcome == "raise":
                    out.append(viol("routed-call-raised", r_, disc="second-caller." + type(r_.exc).__name__,
                                    exc=type(r_.exc).__name__, msg=engine._exc_text(r_.exc)[:100]))
            for v_ in out[n1:]:
                v_["step"] = rec.step        # reported at the step of the parked caller
        out.extend(v for v in ownership_violations(res))
        out.sort(key=lambda v: (v["step"] if v["step"] is not None else -1))
        return out

    def trace_key(self, scn, res):
        advs = [tuple(scn["first"]) if scn["first"] is not None else None]
        down = False
        traffic_after = False
        for st in scn["steps"]:
            if st.get("tag") == "reconf":
                prev = advs[-1]
                advs.append(tuple(st["adv"]))
                if prev is not None and set(prev) - set(st["adv"]):
                    down = True
            elif st.get("tag") == "reconf-error":
                advs.append(None)
            elif st["t"] == "call" and down:
                traffic_after = True
        pieces = tuple(min(len(c.pieces), 9) for c in res.calls if c.method in ("__init__", "reconfigure_nodes"))
        return (scn["world"]["client_kwargs"]["use_vpc"], tuple(advs), pieces), (down and traffic_after)

    def probe_names(self):
        return ("scale-down-then-traffic", "scale-up-then-traffic", "config-reply-split-in-many-pieces",
                "endpoint-answers-ERROR", "use_vpc-off-fqdn", "six-nodes", "single-node",
                "dead-node-scaled-away-then-dead_timeout-elapsed", "broadcast-operation-after-reconfigure")

    def probes(self, scn, res):
        p = {}
        if not scn["world"]["client_kwargs"]["use_vpc"]:
            p["use_vpc-off-fqdn"] = 1
        prev = scn["first"]
        for st in scn["steps"]:
            if st.get("tag") == "reconf":
                if prev is not None:
                    if set(prev) - set(st["adv"]):
                        p["scale-down-then-traffic"] = 1
                    if set(st["adv"]) - set(prev):
                        p["scale-up-then-traffic"] = 1
                prev = st["adv"]
                if len(prev) == 6:
                    p["six-nodes"] = 1
                if len(prev) == 1:
                    p["single-node"] = 1
            if st.get("tag") == "reconf-error":
                p["endpoint-answers-ERROR"] = 1
        if scn["first"] is None:
            p["endpoint-answers-ERROR"] = 1
        seen_reconf = False
        for st in scn["steps"]:
            if st.get("tag") == "reconf":
                seen_reconf = True
            if st.get("tag") == "broadcast" and seen_reconf:
                p["broadcast-operation-after-reconfigure"] = 1
        if any(st.get("tag") == "preamble" for st in scn["steps"]):
            p["dead-node-scaled-away-then-dead_timeout-elapsed"] = 1
        for c in res.calls:
            if c.method in ("__init__", "reconfigure_nodes") and len(c.pieces) > 5:
                p["config-reply-split-in-many-pieces"] = 1
        return p


PROP = C19()

"""Hooks and helpers shared by several property modules."""
from .. import engine

_base = engine._base
_hash = engine._hash_mod


def pooled_clients(top):
    inner = getattr(top, "_client", None)
    if inner is not None and type(top).__name__ == "RetryingClient":
        top = inner
    if isinstance(top, _base.PooledClient):
        return [top]
    if isinstance(top, _hash.HashClient):
        return [c for c in top.clients.values() if isinstance(c, _base.PooledClient)]
    return []


class PoolHook:
    """After every call: number of checked-out pooled clients, and the open sockets of idle ones."""

    def before_call(self, world, res, rec):
        pass

    def after_call(self, world, res, rec):
        used = free = 0
        free_socks = []
        for pc in pooled_clients(res.client) if res.client is not None else ():
            p = pc.client_pool
            used += len(p.used)
            fr = p.free
            free += len(fr)
            for c in fr:
                free_socks.extend(s.id for s in engine.client_socket(c))
        rec.extra["pool_used"] = used
        rec.extra["pool_free"] = free
        rec.extra["free_socks"] = free_socks


def socks_used(world, rec, kinds=("sendall", "recv", "connect")):
    """Socket ids with events of the given kinds during the call."""
    out = []
    for ev in world.events[rec.ev0:rec.ev1]:
        if ev[4] in kinds and ev[3] >= 0 and ev[3] not in out:
            out.append(ev[3])
    return out

"""Independent reference placement: rendezvous hashing over MurmurHash3_x86_32
(transcribed from Austin Appleby's C source, byte-oriented), node name 'host:port'
or the UNIX path, item text '<node>-<key>' (keys formatted with str(), as the
published rule's f-string does).  Only used with texts whose code points are < 256."""


def _rotl32(x, r):
    return ((x << r) | (x >> (32 - r))) & 0xFFFFFFFF


def murmur3_x86_32(data: bytes, seed: int = 0) -> int:
    c1, c2 = 0xCC9E2D51, 0x1B873593
    h1 = seed & 0xFFFFFFFF
    n = len(data)
    nblocks = n // 4
    for i in range(nblocks):
        k1 = int.from_bytes(data[4 * i:4 * i + 4], "little")
        k1 = (k1 * c1) & 0xFFFFFFFF
        k1 = _rotl32(k1, 15)
        k1 = (k1 * c2) & 0xFFFFFFFF
        h1 ^= k1
        h1 = _rotl32(h1, 13)
        h1 = (h1 * 5 + 0xE6546B64) & 0xFFFFFFFF
    tail = data[4 * nblocks:]
    k1 = 0
    if len(tail) >= 3:
        k1 ^= tail[2] << 16
    if len(tail) >= 2:
        k1 ^= tail[1] << 8
    if len(tail) >= 1:
        k1 ^= tail[0]
        k1 = (k1 * c1) & 0xFFFFFFFF
        k1 = _rotl32(k1, 15)
        k1 = (k1 * c2) & 0xFFFFFFFF
        h1 ^= k1
    h1 ^= n
    h1 ^= h1 >> 16
    h1 = (h1 * 0x85EBCA6B) & 0xFFFFFFFF
    h1 ^= h1 >> 13
    h1 = (h1 * 0xC2B2AE35) & 0xFFFFFFFF
    h1 ^= h1 >> 16
    return h1


def node_name(server):
    """server as given to HashClient (tuple, 'host:port', 'unix:/p', '/p') -> node name."""
    if isinstance(server, (tuple, list)):
        return "%s:%s" % (server[0], server[1])
    if server.startswith("unix:"):
        return server[5:]
    if server.startswith("/"):
        return server
    if ":" not in server or server.endswith("]"):
        host, port = server, 11211
    else:
        host, port = server.rsplit(":", 1)
        port = int(port)
    if host.startswith("["):
        host = host.strip("[]")
    return "%s:%s" % (host, port)


def owner(node_names, routing_key):
    """Highest score wins; ties go to the greatest node name."""
    best = None
    for name in node_names:
        text = "%s-%s" % (name, routing_key)
        score = murmur3_x86_32(text.encode("latin-1"))
        if best is None or (score, name) > best:
            best = (score, name)
    return best[1] if best else None

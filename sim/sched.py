"""Deterministic thread scheduler (C08): real threads, run one at a time by baton
passing; scheduling points are every bytecode instruction executed in the pool /
PooledClient code (sys.monitoring INSTRUCTION events), every simulated socket event
and every SimLock operation.  The OS never chooses who runs: the schedule does.
"""
import random
import sys
import threading
import types

mon = sys.monitoring
TOOL = 3
_registered = {"codes": [], "on": False, "sched": None}

STEP_CAP = 40000


class SchedAbort(BaseException):
    """Unwinds a simulated thread when the run is aborted (deadlock, cap, violation)."""


class Deadlock(Exception):
    pass


def _codes_of(obj, out, seen):
    if isinstance(obj, (staticmethod, classmethod)):
        obj = obj.__func__
    if isinstance(obj, property):
        for f in (obj.fget, obj.fset, obj.fdel):
            if f is not None:
                _codes_of(f, out, seen)
        return
    if hasattr(obj, "__wrapped__"):
        _codes_of(obj.__wrapped__, out, seen)
    code = getattr(obj, "__code__", None)
    if isinstance(obj, types.CodeType):
        code = obj
    if code is None or id(code) in seen:
        return
    seen.add(id(code))
    out.append(code)
    for c in code.co_consts:
        if isinstance(c, types.CodeType):
            _codes_of(c, out, seen)


def traced_codes(classes):
    out, seen = [], set()
    for cls in classes:
        for v in vars(cls).values():
            _codes_of(v, out, seen)
    return out


def _on_instruction(code, offset):
    s = _registered["sched"]
    if s is not None:
        s.point("op")


def install(classes):
    """Enable per-instruction events for the given classes' code objects (idempotent)."""
    codes = traced_codes(classes)
    if not _registered["on"]:
        try:
            mon.use_tool_id(TOOL, "verif-sched")
        except ValueError:
            pass
        mon.register_callback(TOOL, mon.events.INSTRUCTION, _on_instruction)
        _registered["on"] = True
    for c in _registered["codes"]:
        mon.set_local_events(TOOL, c, 0)
    for c in codes:
        mon.set_local_events(TOOL, c, mon.events.INSTRUCTION)
    _registered["codes"] = codes
    return len(codes)


def uninstall():
    for c in _registered["codes"]:
        mon.set_local_events(TOOL, c, 0)
    _registered["codes"] = []
    _registered["sched"] = None


class SimLock:
    """lock_generator seam: never blocks the OS thread; blocking is a scheduler state."""

    def __init__(self, sched_ref):
        self._ref = sched_ref
        self.owner = None
        self.waiters = []

    def acquire(self, blocking=True, timeout=-1):
        s = self._ref()
        if s is None or s.me() is None:
            if self.owner is not None:
                raise Deadlock("SimLock taken outside a scheduled run")
            self.owner = "main"
            return True
        s.point("lock-acquire")
        t = s.me()
        while self.owner is not None:
            if not blocking:
                return False
            s.block(t, self)
        self.owner = t.tid
        s.stats["lock-acquired"] += 1
        return True

    def release(self):
        s = self._ref()
        self.owner = None
        if s is not None and s.me() is not None:
            s.unblock(self)
            s.point("lock-release")

    def locked(self):
        return self.owner is not None

    __enter__ = acquire

    def __exit__(self, *a):
        self.release()


class SimThread:
    def __init__(self, tid, body):
        self.tid = tid
        self.body = body
        self.state = "new"        # new | runnable | blocked | done
        self.blocked_on = None
        self.go = threading.Semaphore(0)
        self.thread = None
        self.error = None
        self.priority = 0


class Scheduler:
    def __init__(self, world, spec):
        self.world = world
        self.spec = spec or {}
        self.mode = self.spec.get("mode", "none")
        self.threads = []
        self.by_ident = {}
        self.current = None
        self.step = 0
        self.switches = []          # actual (step, tid) switches made
        self.trace = []             # (tid, kind) of sync-relevant points (for interleaving signature)
        self.trace_steps = []       # step number of each trace entry
        self.in_check = False
        self.abort = None           # reason string
        self.invariant = None       # callable(sched) -> None, may record violations
        self.done_evt = threading.Event()
        self.stats = __import__("collections").Counter()
        self.rng = random.Random(self.spec.get("seed", 0))
        self.p = self.spec.get("p", 0.0)
        self.explicit = {int(s): int(t) for s, t in self.spec.get("switches", [])}
        self.change_points = set(self.spec.get("change_points", []))
        self.contexts = 0

    # ---- identity
    def me(self):
        return self.by_ident.get(threading.get_ident())

    def add(self, body):
        t = SimThread(len(self.threads), body)
        self.threads.append(t)
        return t

    # ---- running
    def run(self):
        _registered["sched"] = self
        prio = self.spec.get("priorities")
        for i, t in enumerate(self.threads):
            t.priority = prio[i] if prio else -i
            th = threading.Thread(target=self._thread_main, args=(t,), name="sim-%d" % t.tid, daemon=True)
            t.thread = th
            t.state = "runnable"
        for t in self.threads:
            t.thread.start()
        # wait until all have registered (each parks immediately)
        first = self._pick(None)
        self.current = first
        self.world.cur_tid = first.tid
        first.go.release()
        ok = self.done_evt.wait(timeout=60)
        _registered["sched"] = None
        if not ok:
            self.abort = self.abort or "wall-clock-watchdog"
            for t in self.threads:
                t.go.release()
        for t in self.threads:
            t.thread.join(timeout=5)
        return self.abort

    def _thread_main(self, t):
        self.by_ident[threading.get_ident()] = t
        t.go.acquire()           # parked until scheduled for the first time
        try:
            if self.abort:
                raise SchedAbort()
            self.world.cur_tid = t.tid
            t.body(t)
        except SchedAbort:
            pass
        except BaseException as e:   # harness-level failure inside a thread
            t.error = e
            self.abort = self.abort or "thread-error"
        finally:
            t.state = "done"
            self.by_ident.pop(threading.get_ident(), None)
            self._leave(t)

    def _leave(self, t):
        """Thread t finished (or aborted): hand the baton on, or finish the run."""
        if self.abort:
            for o in self.threads:
                if o.state != "done":
                    o.go.release()
            if all(o.state == "done" for o in self.threads):
                self.done_evt.set()
            return
        nxt = self._pick(t)
        if nxt is None:
            if all(o.state == "done" for o in self.threads):
                self.done_evt.set()
            else:
                self._deadlock()
            return
        self._switch_to(nxt, record=False)

    def _deadlock(self):
        self.abort = "deadlock"
        self.stats["deadlock"] += 1
        for o in self.threads:
            if o.state != "done":
                o.go.release()
        if all(o.state == "done" for o in self.threads):
            self.done_evt.set()

    def _pick(self, exclude):
        cands = [t for t in self.threads if t.state == "runnable" and t is not exclude]
        if not cands:
            return None
        if self.mode == "pct":
            return max(cands, key=lambda t: (t.priority, -t.tid))
        return min(cands, key=lambda t: t.tid)

    def _switch_to(self, nxt, record=True):
        self.current = nxt
        self.world.cur_tid = nxt.tid
        self.contexts += 1
        if record:
            self.switches.append((self.step, nxt.tid))
        nxt.go.release()

    def _park(self, t):
        t.go.acquire()
        if self.abort:
            raise SchedAbort()
        self.world.cur_tid = t.tid

    # ---- scheduling points
    def point(self, kind):
        if self.in_check:
            return
        t = self.me()
        if t is None or t is not self.current:
            return
        if self.abort:
            raise SchedAbort()
        self.step += 1
        if self.step > STEP_CAP:
            self.abort = "step-cap"
            raise SchedAbort()
        if kind != "op":
            self.trace.append((t.tid, kind))
            self.trace_steps.append(self.step)
        if self.invariant is not None:
            self.in_check = True
            try:
                self.invariant(self, t, kind)
            finally:
                self.in_check = False
            if self.abort:
                raise SchedAbort()
        nxt = None
        if self.mode == "explicit":
            tid = self.explicit.get(self.step)
            if tid is not None and tid != t.tid and self.threads[tid].state == "runnable":
                nxt = self.threads[tid]
        elif self.mode == "random":
            if self.p and self.rng.random() < self.p:
                cands = [o for o in self.threads if o.state == "runnable" and o is not t]
                if cands:
                    nxt = cands[self.rng.randrange(len(cands))]
        elif self.mode == "pct":
            if self.step in self.change_points:
                t.priority = min(o.priority for o in self.threads) - 1
            best = self._pick(None)
            if best is not None and best is not t and best.priority > t.priority:
                nxt = best
        if nxt is not None:
            self._switch_to(nxt)
            self._park(t)

    def block(self, t, lock):
        """t cannot take `lock`: mark blocked and run someone else."""
        t.state = "blocked"
        t.blocked_on = lock
        lock.waiters.append(t)
        self.stats["blocked-on-lock"] += 1
        nxt = self._pick(t)
        if nxt is None:
            self._deadlock()
            raise SchedAbort()
        self._switch_to(nxt)
        self._park(t)

    def unblock(self, lock):
        for w in lock.waiters:
            if w.state == "blocked":
                w.state = "runnable"
                w.blocked_on = None
        lock.waiters.clear()

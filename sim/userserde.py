"""Serializer objects handed to the client under test (they play the *user's* code:
exceptions they raise are the user's, not the simulator's)."""
import json


class DeserError(Exception):
    """Raised by the failing-deserializer seam (C07)."""


class _Cur:
    world = None

class JSONSerde:
    """The example from the Client docstring (flags 1 = str, 2 = JSON); the flag numbers are the application's
    choice, so a variant uses 0 - the value memcached shows for "no flags" - for its JSON items."""

    def __init__(self, f_str=1, f_json=2):
        self.f_str, self.f_json = f_str, f_json

    def serialize(self, key, value):
        if isinstance(value, str):
            return value, self.f_str
        return json.dumps(value), self.f_json

    def deserialize(self, key, value, flags):
        if flags == self.f_str:
            return value
        if flags == self.f_json:
            return json.loads(value)
        raise Exception("Unknown flags for value: {}".format(flags))


class FailingSerde:
    """Inner serde whose deserialize raises when the scenario says so."""

    def __init__(self, inner):
        self.inner = inner

    def serialize(self, key, value):
        return self.inner.serialize(key, value)

    def deserialize(self, key, value, flags):
        w = _Cur.world
        ctx = w.ctx()
        n = ctx.kinds["deser"]
        ctx.kinds["deser"] = n + 1
        f = ctx.match("deser", n)
        if f is not None:
            ctx.fired.append(("deser", n, "deser", -1))
            w.stats["fault:deser"] += 1
            raise DeserError("sim: cannot deserialize")
        return self.inner.deserialize(key, value, flags)


class _Plain:
    def serialize(self, key, value):
        return value, 0

    def deserialize(self, key, value, flags):
        return value




def legacy_ser(key, value):
    """A legacy serializer= function (pre-serde API): tags non-bytes values."""
    if isinstance(value, bytes):
        return value, 0
    return json.dumps(value).encode("ascii"), 7


def legacy_deser(key, value, flags):
    """The matching legacy deserializer= function."""
    if flags == 7:
        return json.loads(value)
    return value


FUNCS = {"legacy_ser": legacy_ser, "legacy_deser": legacy_deser}

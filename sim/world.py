"""SimWorld: virtual clock, simulated socket module / sockets / TLS context, fault
plans indexed by socket event, delivery schedules, reply-ownership oracles and the
socket ledger.  No real clock, socket or thread choice is used anywhere in here.
"""
import errno
import socket as _real_socket
import ssl as _ssl
from collections import Counter

from .node import SimNode

EPOCH = 1_700_000_000.0
TICK = 1.0 / 1024

AF_INET = int(_real_socket.AF_INET)
AF_INET6 = int(_real_socket.AF_INET6)
AF_UNIX = int(_real_socket.AF_UNIX)

EVENT_KINDS = ("getaddrinfo", "socket", "setsockopt", "wrap", "settimeout", "connect",
               "sendall", "recv", "close")

GARBAGE_LINES = (b"XYZZY 12\r\n", b"\r\n", b"VALUE\r\n", b"STORED\r\n", b"0\r\n",
                 b"END\r\n", b"VALUE k 0 x\r\n", b"OK\r\n", b"VERSION\r\n")
ERROR_LINES = (b"SERVER_ERROR out of memory storing object\r\n", b"CLIENT_ERROR bad data chunk\r\n",
               b"ERROR\r\n", b"SERVER_ERROR\r\n")


class SimClock:
    def __init__(self):
        self.now = EPOCH
        self.slept = []

    def time(self):
        return self.now

    def advance(self, dt):
        if dt > 0:
            self.now += dt

    def sleep(self, dt):
        self.slept.append(dt)
        if dt and dt > 0:
            self.now += dt


class CallCtx:
    """Per public call: fault plan, delivery schedule, counters."""
    __slots__ = ("id", "tid", "step", "method", "faults", "kinds", "seg", "piece", "eintr",
                 "fired", "reply_faults", "nreply", "sent", "received", "commands",
                 "socks", "obs", "nevents", "pieces_log", "interrupt_seen", "lat", "rx")

    def __init__(self, cid, tid, step, method, faults=None, net=None):
        self.id, self.tid, self.step, self.method = cid, tid, step, method
        self.faults = [f for f in (faults or ()) if f["at"][0] != "reply"]
        self.reply_faults = {f["at"][1]: f for f in (faults or ()) if f["at"][0] == "reply"}
        self.kinds = Counter()
        net = net or {}
        self.seg = net.get("seg") or (0,)
        self.eintr = Counter(net.get("eintr") or ())    # piece index -> number of EINTRs before it
        self.lat = net.get("lat", 0)
        self.piece = 0
        self.fired = []
        self.nreply = 0
        self.sent = 0
        self.received = 0
        self.commands = []
        self.socks = []
        self.obs = []
        self.nevents = 0
        self.pieces_log = []
        self.interrupt_seen = False
        self.rx = None

    def match(self, kind, n):
        for f in self.faults:
            at = f["at"]
            if at[0] == kind and at[1] == n:
                return f
        return None


class World:
    def __init__(self, spec=None):
        spec = spec or {}
        self.spec = spec
        self.clock = SimClock()
        self.seq = 0
        self.events = []
        self.obs = []
        self.stats = Counter()
        self.nodes = {}
        self.addr = {}          # (ip, port) | path -> node id
        self.resolver = {}      # host -> [[family, ip], ...]
        self.sockets = []
        self.cur_tid = 0
        self.ctxs = {}          # tid -> CallCtx
        self.idle_ctx = CallCtx(-1, 0, -1, "<idle>")
        self.ncalls = 0
        self.sched = None       # thread scheduler (C08)
        self.second_caller = None   # installed by the engine: runs the calls of a "yield" fault as another caller
        self.tls = bool(spec.get("tls"))
        self.expect_timeouts = None  # (connect_timeout, timeout) or None = unchecked
        self.net = SimNet(self)
        self.tls_context = SimTLSContext(self) if self.tls else None
        self.max_open = 0
        self.health_log = []
        self.ok_log = []
        self.open_limit = spec.get("open_limit")
        self.piece_cap = 64
        self.capture_rx = bool(spec.get("capture_rx"))
        if self.capture_rx:
            self.piece_cap = 1 << 16
        for n in spec.get("nodes", ()):
            node = SimNode(self, n["id"], n.get("opts"))
            self.nodes[n["id"]] = node
            if "path" in n:
                self.addr[n["path"]] = n["id"]
            for a in n.get("addrs", ()):
                self.addr[(a[0], int(a[1]))] = n["id"]
            if n.get("health"):
                node.health = n["health"]
        for host, lst in (spec.get("resolver") or {}).items():
            self.resolver[host] = [(AF_INET6 if f == "inet6" else AF_INET, ip) for f, ip in lst]

    # ---- calls -----------------------------------------------------------
    def ctx(self):
        return self.ctxs.get(self.cur_tid) or self.idle_ctx

    def begin_call(self, step, method, faults=None, net=None):
        self.ncalls += 1
        c = CallCtx(self.ncalls, self.cur_tid, step, method, faults, net)
        self.ctxs[self.cur_tid] = c
        self.clock.now += TICK
        return c

    def end_call(self, ctx):
        if self.ctxs.get(ctx.tid) is ctx:
            del self.ctxs[ctx.tid]

    # ---- logging ---------------------------------------------------------
    def observe(self, oracle, **kw):
        kw["oracle"] = oracle
        kw.setdefault("call", self.ctx().id)
        kw["seq"] = self.seq
        self.obs.append(kw)
        self.stats["obs:" + oracle] += 1

    def event(self, kind, sock, detail=None):
        ctx = self.ctx()
        self.seq += 1
        n = ctx.kinds[kind]
        ctx.kinds[kind] = n + 1
        ctx.nevents += 1
        sid = sock.id if sock is not None else -1
        self.events.append((self.seq, ctx.tid, ctx.id, sid, kind, detail))
        self.stats["ev:" + kind] += 1
        if self.sched is not None:
            self.sched.point("ev:" + kind)
        f = ctx.match(kind, n)
        if f is not None:
            ctx.fired.append((kind, n, f["kind"], sid))
            self.stats["fault:" + f["kind"]] += 1
            if sock is not None and sock.conn is not None:
                sock.conn.fault_calls.add(ctx.id)
            if f["kind"] == "interrupt":
                ctx.interrupt_seen = True
            if f["kind"] == "yield":
                # the caller is parked inside this socket call while a second caller (another thread of the
                # application) runs the calls listed in the fault to completion on the same client object; then the
                # socket call goes on - or fails with the fault given as "then"
                if self.second_caller is not None:
                    prev = self.cur_tid
                    self.cur_tid = prev + 1
                    try:
                        self.second_caller(f)
                    finally:
                        self.cur_tid = prev
                f = f.get("then")
                if f is not None:
                    ctx.fired.append((kind, n, f["kind"], sid))
                    self.stats["fault:" + f["kind"]] += 1
                    if sock is not None and sock.conn is not None:
                        sock.conn.fault_calls.add(ctx.id)
        return f

    def health_fault(self, sock, kind):
        ctx = self.ctx()
        self.health_log.append((self.seq, sock.target, kind, ctx.id, sock.id, self.clock.now))
        ctx.fired.append(("health", 0, kind, sock.id))
        self.stats["fault:health-" + kind] += 1
        if sock.conn is not None:
            sock.conn.fault_calls.add(ctx.id)

    def command_seen(self, node, owner, verb, key, detail):
        ctx = self.ctx()
        ctx.commands.append((node.id, verb, key, detail, self.seq))

    def reply_hook(self, conn, owner, data):
        """Called by a node for every reply unit; applies reply-level faults."""
        ctx = self.ctx()
        i = ctx.nreply
        ctx.nreply += 1
        f = ctx.reply_faults.get(i)
        if f is None:
            return data
        ctx.fired.append(("reply", i, f["kind"], conn.id))
        self.stats["fault:" + f["kind"]] += 1
        conn.fault_calls.add(ctx.id)
        if f["kind"] == "errline":
            return ERROR_LINES[f.get("v", 0) % len(ERROR_LINES)]
        if f["kind"] == "garbage":
            return GARBAGE_LINES[f.get("v", 0) % len(GARBAGE_LINES)]
        if f["kind"] == "foreign-value":   # a well-formed item - for a key nobody asked for (confused proxy / server)
            if data.startswith(b"VALUE ") or data == b"END\r\n":       # only a retrieval reply has this shape
                return b"VALUE zz-not-requested 0 5\r\nalien\r\nEND\r\n"
            return data
        if f["kind"] == "truncate":   # reply cut after n bytes, then the node closes
            n = f.get("n", 0) % (len(data) + 1) if f.get("mod", True) else f.get("n", 0)
            conn.peer_closed = True
            return data[:n]
        if f["kind"] == "partial-error":  # some VALUE blocks, then SERVER_ERROR (get path)
            k = data.find(b"\r\nEND\r\n")
            if k > 0 and data.count(b"VALUE ") >= 1:
                return data[:k + 2] + b"SERVER_ERROR out of memory writing get response\r\n"
            return b"SERVER_ERROR out of memory writing get response\r\n"
        return data

    def open_sockets(self):
        return [s for s in self.sockets if not s.closed]


def _mk_error(f, default):
    k = f.get("err", default)
    if k == "reset":
        return ConnectionResetError(errno.ECONNRESET, "sim: connection reset by peer")
    if k == "pipe":
        return BrokenPipeError(errno.EPIPE, "sim: broken pipe")
    if k == "refuse":
        return ConnectionRefusedError(errno.ECONNREFUSED, "sim: connection refused")
    if k == "timeout":
        return _real_socket.timeout("sim: timed out")
    if k == "unreach":
        return OSError(errno.EHOSTUNREACH, "sim: no route to host")
    if k == "emfile":
        return OSError(errno.EMFILE, "sim: too many open files")
    if k == "eafnosupport":
        return OSError(errno.EAFNOSUPPORT, "sim: address family not supported")
    if k == "einval":
        return OSError(errno.EINVAL, "sim: invalid argument")
    # failures of the same calls that are NOT OSErrors (what CPython raises for out-of-range arguments)
    if k == "valueerror":
        return ValueError("sim: Timeout value out of range")
    if k == "overflow":
        return OverflowError("sim: connect(): port must be 0-65535.")
    if k == "typeerror":
        return TypeError("sim: an integer is required (got type NoneType)")
    if k == "gaierror":
        return _real_socket.gaierror(_real_socket.EAI_NONAME, "sim: name or service not known")
    if k == "ssl":
        return _ssl.SSLError(1, "sim: handshake failure")
    return OSError(errno.EIO, "sim: " + str(k))


def _raise_fault(world, f, default):
    kind = f["kind"]
    if kind == "interrupt":
        from .codec import _EXC
        raise _EXC[f.get("exc", "KeyboardInterrupt")]("sim: interrupted")
    raise _mk_error(f, default)


class SimNet:
    """Stands in for the `socket` module (constructor argument socket_module=)."""

    AF_UNIX = AF_UNIX
    AF_INET = AF_INET
    AF_INET6 = AF_INET6
    AF_UNSPEC = int(_real_socket.AF_UNSPEC)
    SOCK_STREAM = int(_real_socket.SOCK_STREAM)
    IPPROTO_TCP = int(_real_socket.IPPROTO_TCP)
    TCP_NODELAY = int(_real_socket.TCP_NODELAY)
    SOL_SOCKET = int(_real_socket.SOL_SOCKET)
    SO_KEEPALIVE = int(_real_socket.SO_KEEPALIVE)
    timeout = _real_socket.timeout
    error = OSError
    gaierror = _real_socket.gaierror

    def __init__(self, world):
        self._w = world

    def getaddrinfo(self, host, port, family=0, type=0, proto=0, flags=0):
        w = self._w
        f = w.event("getaddrinfo", None, (str(host), str(port)))
        if f is not None:
            _raise_fault(w, f, "gaierror")
        port = int(port)
        lst = w.resolver.get(host)
        if lst is None:
            lst = [(AF_INET6 if ":" in host else AF_INET, host)]
        out = []
        for fam, ip in lst:
            sa = (ip, port, 0, 0) if fam == AF_INET6 else (ip, port)
            out.append((fam, self.SOCK_STREAM, self.IPPROTO_TCP, "", sa))
        return out

    def socket(self, family=AF_INET, type=1, proto=0):
        w = self._w
        f = w.event("socket", None, (int(family),))
        if f is not None:
            _raise_fault(w, f, "eafnosupport")
        s = SimSocket(w, int(family))
        return s


class SimSocket:
    def __init__(self, world, family):
        self._w = world
        self.id = len(world.sockets)
        world.sockets.append(self)
        self.family = family
        self.closed = False
        self.close_calls = 0
        self.timeout = None
        self.timeout_set = False
        self.opts = []
        self.conn = None
        self.connected_to = None
        self.wrapper = None
        self.created_call = world.ctx().id
        self.created_seq = world.seq
        self.ncmd_sends = 0
        self.failed_call = None
        self.target = None
        self.closed_seq = None
        self.shut = False
        self.last_io = None          # simulated time of the last send / receive on this socket
        self.closed_at = None
        world.ctx().socks.append(self.id)
        no = len(world.open_sockets())
        if no > world.max_open:
            world.max_open = no
        if world.open_limit is not None and no > world.open_limit:
            world.observe("too-many-open-sockets", sock=self.id, open=no, limit=world.open_limit)

    # -- helpers
    def _check_usable(self, what, via_tls):
        w = self._w
        if self.closed:
            w.observe("io-on-closed-socket", sock=self.id, what=what)
            raise OSError(errno.EBADF, "sim: bad file descriptor")
        if w.tls and not via_tls:
            w.observe("io-on-unwrapped-socket" if self.wrapper is None else "raw-io-after-wrap",
                      sock=self.id, what=what)

    def setsockopt(self, level, opt, val, _tls=False):
        w = self._w
        f = w.event("setsockopt", self, (int(level), int(opt), val))
        if self.closed:
            raise OSError(errno.EBADF, "sim: bad file descriptor")
        if f is not None:
            _raise_fault(w, f, "einval")
        self.opts.append((int(level), int(opt), val))

    def settimeout(self, t, _tls=False):
        w = self._w
        f = w.event("settimeout", self, t)
        if self.closed:
            raise OSError(errno.EBADF, "sim: bad file descriptor")
        if f is not None:
            _raise_fault(w, f, "einval")
        self.timeout = t
        self.timeout_set = True

    def connect(self, addr, _tls=False):
        try:
            return self._connect(addr, _tls)
        except OSError:
            self._fail()
            raise

    def _fail(self):
        if self.failed_call is None:
            self.failed_call = self._w.ctx().id

    def _connect(self, addr, _tls=False):
        w = self._w
        f = w.event("connect", self, _addr_detail(addr))
        self._check_usable("connect", _tls)
        if w.expect_timeouts is not None and self.timeout != w.expect_timeouts[0]:
            w.observe("wrong-timeout-at-connect", sock=self.id, have=self.timeout,
                      want=w.expect_timeouts[0])
        if f is not None:
            if f["kind"] == "connect_timeout":
                w.clock.advance(self.timeout or 0)
                raise _real_socket.timeout("sim: connect timed out")
            _raise_fault(w, f, "refuse")
        if self.conn is not None:
            raise OSError(errno.EISCONN, "sim: already connected")
        key = addr if isinstance(addr, str) else (addr[0], int(addr[1]))
        nid = w.addr.get(key)
        self.target = nid
        node = w.nodes.get(nid)
        if node is None or node.health == "refuse":
            w.health_fault(self, "refuse")
            raise ConnectionRefusedError(errno.ECONNREFUSED, "sim: connection refused")
        if node.health == "unreach":
            w.health_fault(self, "unreach")
            raise OSError(errno.EHOSTUNREACH, "sim: no route to host")
        if node.health == "connect_timeout":
            w.health_fault(self, "connect_timeout")
            w.clock.advance(self.timeout or 0)
            raise _real_socket.timeout("sim: connect timed out")
        self.conn = node.accept(self)
        self.connected_to = nid
        if node.health == "eof":
            self.conn.peer_closed = True

    def sendall(self, data, _tls=False):
        try:
            return self._sendall(data, _tls)
        except OSError:
            self._fail()
            raise

    def _sendall(self, data, _tls=False):
        w = self._w
        self.last_io = w.clock.now
        f = w.event("sendall", self, len(data))
        self._check_usable("sendall", _tls)
        conn = self.conn
        if conn is None:
            raise OSError(errno.ENOTCONN, "sim: not connected")
        self._check_io_timeout()
        ctx = w.ctx()
        if conn.broken or self.shut:
            raise BrokenPipeError(errno.EPIPE, "sim: broken pipe")
        for seg in conn.out:
            if seg[1] != ctx.id:
                w.observe("unread-reply-left", sock=self.id, owner=seg[1], nbytes=conn.out_bytes())
                break
        node = conn.node
        if f is not None:
            kind = f["kind"]
            if kind == "interrupt":
                if f.get("when") == "after":
                    ctx.sent += len(data)
                    node.feed(conn, bytes(data), ctx.id)
                elif f.get("when") == "partial" and len(data) > 1:
                    k = max(1, min(f.get("sent", 1), len(data) - 1))
                    w.stats["probe:torn-send"] += 1
                    ctx.sent += k
                    node.feed(conn, bytes(data[:k]), ctx.id)
                _raise_fault(w, f, None)
            sent = f.get("sent", 0)
            if sent:
                sent = min(sent, max(len(data) - 1, 0))
                if sent:
                    w.stats["probe:torn-send"] += 1
                    ctx.sent += sent
                    node.feed(conn, bytes(data[:sent]), ctx.id)
            if kind == "timeout":
                w.clock.advance(self.timeout or 0)
                raise _real_socket.timeout("sim: send timed out")
            if kind == "eintr":
                raise OSError(errno.EINTR, "sim: interrupted system call")
            conn.broken = True
            _raise_fault(w, f, "pipe" if kind == "pipe" else "reset")
        h = node.health
        if h in ("reset", "refuse"):
            # a failing server also breaks the connections it had accepted earlier
            w.health_fault(self, h)
            conn.broken = True
            raise ConnectionResetError(errno.ECONNRESET, "sim: connection reset by peer")
        if h == "unreach":
            w.health_fault(self, h)
            conn.broken = True
            raise OSError(errno.EHOSTUNREACH, "sim: no route to host")
        ctx.sent += len(data)
        if h == "eof":
            w.health_fault(self, "eof")
            conn.peer_closed = True
            return None
        if conn.peer_closed:
            w.health_fault(self, "peer-closed")   # the server had closed this connection
            return None
        if h in ("blackhole", "connect_timeout"):
            return None   # bytes vanish
        w.ok_log.append((w.seq, self.target, ctx.id, self.id, w.clock.now))
        node.feed(conn, bytes(data), ctx.id)
        return None

    def _check_io_timeout(self):
        w = self._w
        if w.expect_timeouts is not None and self.timeout != w.expect_timeouts[1]:
            w.observe("wrong-timeout-at-io", sock=self.id, have=self.timeout,
                      want=w.expect_timeouts[1])

    def recv(self, n, _tls=False):
        try:
            d = self._recv(n, _tls)
        except OSError as e:
            if e.errno != errno.EINTR:
                self._fail()
            raise
        if not d:
            self._fail()
        return d

    def _recv(self, n, _tls=False):
        w = self._w
        self.last_io = w.clock.now
        f = w.event("recv", self, None)
        self._check_usable("recv", _tls)
        conn = self.conn
        if conn is None:
            raise OSError(errno.ENOTCONN, "sim: not connected")
        self._check_io_timeout()
        ctx = w.ctx()
        if self.shut:
            return b""
        if n < 0:
            raise ValueError("sim: negative buffersize in recv")     # what a real socket says
        if n == 0:
            return b""
        if f is not None:
            kind = f["kind"]
            if kind == "eintr":
                raise OSError(errno.EINTR, "sim: interrupted system call")
            if kind == "eof":
                conn.peer_closed = True
                conn.out.clear()
                return b""
            if kind == "timeout":
                w.clock.advance(self.timeout or 0)
                raise _real_socket.timeout("sim: recv timed out")
            if kind == "interrupt":
                _raise_fault(w, f, None)
            conn.broken = True
            conn.out.clear()
            _raise_fault(w, f, "reset")
        if conn.broken:
            raise ConnectionResetError(errno.ECONNRESET, "sim: connection reset by peer")
        if ctx.eintr.get(ctx.piece):
            ctx.eintr[ctx.piece] -= 1
            w.stats["fault:eintr"] += 1
            raise OSError(errno.EINTR, "sim: interrupted system call")
        out = conn.out
        if not out:
            if conn.peer_closed:
                return b""
            h = conn.node.health
            if h in ("blackhole", "connect_timeout"):
                w.health_fault(self, "blackhole")
                w.clock.advance(self.timeout or 0)
                raise _real_socket.timeout("sim: recv timed out")
            excused = ctx.id in conn.fault_calls
            w.observe("waits-for-no-reply", sock=self.id, excused=excused)
            w.clock.advance(self.timeout or 0)
            raise _real_socket.timeout("sim: recv would block forever")
        want = ctx.seg[ctx.piece % len(ctx.seg)]
        if ctx.lat and ctx.piece == 0:
            w.clock.advance(ctx.lat)      # the server takes simulated time to answer
            self.last_io = w.clock.now
        ctx.piece += 1
        limit = n if not want else min(n, want)
        if limit <= 0:
            limit = 1
        parts = []
        got = 0
        while out and got < limit:
            seg = out[0]
            if seg[1] != ctx.id:
                w.observe("foreign-reply-read", sock=self.id, owner=seg[1],
                          data=bytes(seg[0][:24]))
                seg[1] = ctx.id   # report each foreign segment once
            take = limit - got
            d = seg[0]
            if len(d) <= take:
                parts.append(d)
                got += len(d)
                out.popleft()
            else:
                parts.append(d[:take])
                seg[0] = d[take:]
                got += take
        data = b"".join(parts)
        ctx.received += got
        if len(ctx.pieces_log) < w.piece_cap:
            ctx.pieces_log.append(got)
        if w.capture_rx:
            if ctx.rx is None:
                ctx.rx = bytearray()
            ctx.rx += data
        return data

    def close(self, _tls=False):
        w = self._w
        f = w.event("close", self, None)
        self.close_calls += 1
        if not self.closed:
            self.closed = True
            self.closed_seq = w.seq
            self.closed_at = w.clock.now
        if f is not None and f["kind"] == "closefail":
            raise OSError(errno.EIO, "sim: close failed")
        if f is not None and f["kind"] == "interrupt":
            _raise_fault(w, f, None)

    def shutdown(self, how, _tls=False):
        """socket.shutdown(): fails with ENOTCONN on a connection the peer has reset / that never was one."""
        w = self._w
        w.event("shutdown", self, int(how))
        if self.closed:
            raise OSError(errno.EBADF, "sim: bad file descriptor")
        conn = self.conn
        if conn is None or conn.broken:
            raise OSError(errno.ENOTCONN, "sim: transport endpoint is not connected")
        self.shut = True

    def closed_by_seq(self, seq):
        return self.closed_seq is not None and self.closed_seq <= seq

    def fileno(self):
        return -1 if self.closed else 1000 + self.id

    def __repr__(self):
        return "<SimSocket %d>" % self.id


def _addr_detail(addr):
    if isinstance(addr, str):
        return addr
    return "%s:%s" % (addr[0], addr[1])


class SimTLSSocket:
    """What SimTLSContext.wrap_socket returns; delegates to the raw socket."""

    def __init__(self, raw, hostname):
        self._raw = raw
        self.server_hostname = hostname
        self.id = raw.id

    @property
    def conn(self):
        return self._raw.conn

    @property
    def closed(self):
        return self._raw.closed

    def setsockopt(self, *a):
        return self._raw.setsockopt(*a, _tls=True)

    def settimeout(self, t):
        return self._raw.settimeout(t, _tls=True)

    def connect(self, addr):
        return self._raw.connect(addr, _tls=True)

    def sendall(self, data):
        return self._raw.sendall(data, _tls=True)

    def recv(self, n):
        return self._raw.recv(n, _tls=True)

    def close(self):
        return self._raw.close(_tls=True)

    def shutdown(self, how):
        return self._raw.shutdown(how, _tls=True)

    def unwrap(self):
        """TLS shutdown handshake: needs a live connection."""
        raw = self._raw
        raw._w.event("unwrap", raw, None)
        if raw.closed:
            raise OSError(errno.EBADF, "sim: bad file descriptor")
        conn = raw.conn
        if conn is None or conn.broken or conn.peer_closed:
            import ssl
            raise ssl.SSLEOFError(8, "sim: EOF occurred in violation of protocol")
        raw.wrapper = None
        return raw

    def __repr__(self):
        return "<SimTLSSocket %d>" % self.id


class SimTLSContext:
    def __init__(self, world):
        self._w = world

    def wrap_socket(self, sock, server_hostname=None, **kw):
        w = self._w
        f = w.event("wrap", sock, server_hostname)
        if f is not None:
            _raise_fault(w, f, "ssl")
        if sock.wrapper is not None:
            w.observe("double-wrap", sock=sock.id)
        t = SimTLSSocket(sock, server_hostname)
        sock.wrapper = t
        return t

    def __bool__(self):
        return True

#!/venv/bin/python
"""tools/dbg.py PROP lo hi : run units serially, print first violation of each violating scenario (truncated)."""
import sys, os, random, json
sys.path.insert(0, os.path.dirname(os.path.dirname(os.path.abspath(__file__))))
from sim import driver
pid, lo, hi = sys.argv[1].upper(), int(sys.argv[2]), int(sys.argv[3])
prop = driver._load_prop(pid)
seen = set()
for idx in range(lo, hi):
    rng = random.Random(driver.unit_seed(0, idx))
    for j, scn in enumerate(prop.gen(rng, idx, "quick")):
        scn.setdefault("property", pid)
        res = prop.run(scn)
        if res.violations:
            v = res.violations[0]
            sig = driver.vsig(v)
            if sig in seen:
                continue
            seen.add(sig)
            print("unit", idx, j, json.dumps(v, default=repr)[:600])
            print("   world:", json.dumps(scn["world"])[:500])
            st = scn["steps"][v["step"]] if v.get("step") is not None and v["step"] >= 0 else None
            print("   step:", json.dumps(st)[:500])

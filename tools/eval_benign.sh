#!/bin/sh
# tools/eval_benign.sh <dir-with-diffs> <out.tsv>
# False-alarm resistance: every behaviour-preserving change (<dir>/B*/[abc].diff, produced by sub-agents that were
# given only an area of the code and the instruction to refactor without changing behaviour) is applied to a scratch
# copy of /repo (never to /repo); the pinned suite is run in a scratch worktree; then every quick check is run
# against the copy.  Expected: no VIOLATION, no HARNESS-ERROR.  One row per change: . quiet, X violation, E harness.
cd "$(dirname "$0")/.." || exit 2
SRC="$1"; OUT="$2"
PROPS="C01 C02 C03 C04 C05 C06 C07 C08 C09 C10 C12 C13 C16 C17 C18 C19"
printf "change\tsuite" > "$OUT"; for p in $PROPS; do printf "\t$p" >> "$OUT"; done; printf "\n" >> "$OUT"
for f in "$SRC"/B*/[abc].diff; do
  [ -f "$f" ] || continue
  name="$(basename "$(dirname "$f")")-$(basename "$f" .diff)"
  wt="$(mktemp -d /tmp/bn.XXXXXX)"; rmdir "$wt"
  git -C /repo worktree add -q --detach "$wt" HEAD || exit 2
  if git -C "$wt" apply "$f" 2>/dev/null; then
    suite=$(cd "$wt" && timeout 900 /venv/bin/python -m pytest -q -p no:cacheprovider 2>&1 | tail -1 | grep -q "488 passed" && echo ok || echo FAIL)
  else
    suite=NOAPPLY
  fi
  git -C /repo worktree remove --force "$wt"; rm -rf "$wt"
  printf "$name\t$suite" >> "$OUT"
  for p in $PROPS; do
    r=$(timeout 1800 tools/with_mutant "$f" $p --tier quick 2>&1)
    if echo "$r" | grep -q "HARNESS-ERROR\|PATCH-FAILED"; then c="E"; elif echo "$r" | grep -q "VIOLATION property=$p"; then c="X"; else c="."; fi
    printf "\t$c" >> "$OUT"
    if [ "$c" != "." ]; then echo "$r" | grep -E "^violation|HARNESS|PATCH-FAILED|Error|error" | head -5 | sed "s/^/  [$name $p] /" | cut -c1-300; fi
  done
  printf "\n" >> "$OUT"
  tail -1 "$OUT"
done
echo benign done

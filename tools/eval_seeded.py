#!/venv/bin/python
"""tools/eval_seeded.py <PROP> <a|b> [--keep]
Confirms a sub-agent's seeded change in a fresh scratch worktree (outside /repo and /verif):
  1. the diff applies, 2. the pinned unit suite still passes with it, 3. its demo fails with it and
  passes without it, 4. runs this property's quick check (and optionally others) against a scratch
  copy with the change (tools/with_mutant), 5. on confirmation stores patch/demo/meta under seeded/.
The scratch worktree is removed at the end."""
import json, os, shutil, subprocess, sys, tempfile
HERE = os.path.dirname(os.path.dirname(os.path.abspath(__file__)))
pid, which = sys.argv[1].upper(), sys.argv[2]
opts = {}
rest = sys.argv[3:]
extra_props = []
i = 0
while i < len(rest):
    if rest[i] in ("--src", "--name"):
        opts[rest[i][2:]] = rest[i + 1]
        i += 2
    else:
        extra_props.append(rest[i].upper())
        i += 1
name = opts.get("name", which)
src = "%s/%s" % (opts.get("src", "/tmp/seeded-out"), pid)
diff = os.path.join(src, which + ".diff")
demo = os.path.join(src, which + "_demo.py")
meta_in = os.path.join(src, which + ".json")
wt = tempfile.mkdtemp(prefix="ev-%s%s-" % (pid, name), dir="/tmp")
os.rmdir(wt)


def sh(cmd, **kw):
    return subprocess.run(cmd, shell=True, capture_output=True, text=True, **kw)


out = {"property": pid, "variant": which}
try:
    r = sh("git -C /repo worktree add -q --detach %s HEAD" % wt)
    assert r.returncode == 0, r.stderr
    r = sh("git -C %s apply %s" % (wt, diff))
    out["applies"] = r.returncode == 0
    if not out["applies"]:
        out["apply_error"] = r.stderr[-500:]
        raise SystemExit
    touched = sh("git -C %s diff --stat" % wt).stdout
    out["diffstat"] = touched.strip().splitlines()[-1] if touched.strip() else ""
    out["touches_tests"] = "pymemcache/test/" in touched
    r = sh("cd %s && /venv/bin/python -m pytest -q -p no:cacheprovider 2>&1 | tail -1" % wt, timeout=900)
    out["suite"] = r.stdout.strip()
    out["suite_passes"] = "488 passed" in r.stdout and "failed" not in r.stdout
    r = sh("PYMEMCACHE_SRC=%s timeout 300 /venv/bin/python %s" % (wt, demo), timeout=400)
    out["demo_with_change_exit"] = r.returncode
    out["demo_with_change_tail"] = (r.stdout + r.stderr)[-400:]
    sh("git -C %s checkout -- ." % wt)
    r = sh("PYMEMCACHE_SRC=%s timeout 300 /venv/bin/python %s" % (wt, demo), timeout=400)
    out["demo_without_change_exit"] = r.returncode
    out["confirmed"] = bool(out["suite_passes"] and out["demo_with_change_exit"] != 0
                            and out["demo_without_change_exit"] == 0 and not out["touches_tests"])
    checks = {}
    for p in [pid] + extra_props:
        r = sh("%s/tools/with_mutant %s %s --tier quick" % (HERE, diff, p), timeout=5400)
        lines = [l for l in r.stdout.splitlines() if l.startswith(("violation:", "VIOLATION", "done", "HARNESS"))]
        checks[p] = {"detected": ("VIOLATION property=%s" % p) in r.stdout, "harness_error": "HARNESS-ERROR" in r.stdout,
                     "oracles": sorted({l.split("oracle=")[1].split(" ")[0] for l in lines if l.startswith("violation:")}),
                     "tail": lines[-1][:200] if lines else r.stdout[-300:]}
    out["checks"] = checks
finally:
    sh("git -C /repo worktree remove --force %s" % wt)
    shutil.rmtree(wt, ignore_errors=True)
print(json.dumps(out, indent=1))
if out.get("confirmed"):
    dst = os.path.join(HERE, "seeded", "%s-%s" % (pid, name))
    os.makedirs(dst, exist_ok=True)
    shutil.copy(diff, os.path.join(dst, "patch.diff"))
    shutil.copy(demo, os.path.join(dst, "demo.py"))
    meta = json.load(open(meta_in)) if os.path.exists(meta_in) else {}
    meta.update({"property": pid, "source": "independent sub-agent given only the property text and a scratch worktree",
                 "confirmed": {k: out[k] for k in ("suite", "demo_with_change_exit", "demo_without_change_exit", "diffstat")},
                 "what_i_ran": ["git apply in a fresh scratch worktree of /repo HEAD", "/venv/bin/python -m pytest -q -p no:cacheprovider (488 passed)",
                                "PYMEMCACHE_SRC=<worktree> python demo.py (fails with the change, passes without)",
                                "tools/with_mutant patch.diff %s --tier quick" % pid],
                 "checks": out.get("checks")})
    json.dump(meta, open(os.path.join(dst, "meta.json"), "w"), indent=1)
    print("stored in", dst)

#!/bin/sh
# tools/matrix.sh : every seeded change (seeded/*/patch.diff) against every check at --scale 0.3; writes seeded/MATRIX.tsv
cd "$(dirname "$0")/.." || exit 2
OUT=seeded/MATRIX.tsv
PROPS="C01 C02 C03 C04 C05 C06 C07 C08 C09 C10 C12 C13 C16 C17 C18 C19"
printf "change" > $OUT; for p in $PROPS; do printf "\t$p" >> $OUT; done; printf "\n" >> $OUT
for d in seeded/C*-*; do
  [ -f "$d/patch.diff" ] || continue
  printf "$(basename $d)" >> $OUT
  own=$(basename $d | cut -d- -f1)
  for p in $PROPS; do
    sc=0.3; [ "$p" = "$own" ] && sc=1
    r=$(timeout 1800 tools/with_mutant $d/patch.diff $p --tier quick --scale $sc 2>&1)
    if echo "$r" | grep -q "HARNESS-ERROR\|PATCH-FAILED"; then c="E"; elif echo "$r" | grep -q "VIOLATION property=$p"; then c="X"; else c="."; fi
    printf "\t$c" >> $OUT
  done
  printf "\n" >> $OUT
done
echo matrix done

#!/venv/bin/python
"""Regenerates MANIFEST.json from the table below (kept in one place so it stays valid)."""
import json, os
HERE = os.path.dirname(os.path.dirname(os.path.abspath(__file__)))

TRUST = ("Trusted base: the simulator under /verif/sim (SimNet/SimSocket/SimNode/SimClock), CPython 3.12; "
         "the peer model is written from protocol.txt / memcached 1.6 behaviour, not validated against a real server "
         "(none in the sandbox). Sampling, not proof: assurance is proportional to the reach reported in the evidence file.")

CHECKS = {
 "C01": ("fault_enumeration", "5.C01",
         "Seeded deterministic simulation: fault sweep over every socket event and reply unit of sampled calls x fault kinds, plus random multi-fault histories, on Client/PooledClient/HashClient against a reference memcached; byte-ownership oracle on the simulated wire plus result-vs-server-state oracle on fault-free calls.",
         "deterministic simulation + fault injection; reply-ownership tags on the simulated wire"),
 "C02": ("exploration", "5.C02",
         "Seeded adversarial argument generation for every public operation on three client stacks; the simulated peer's strict parser and the call-intent log decide: raised with zero bytes sent, or parsed exactly as intended. Input-driven: no fault is needed, the oracle lives in the simulated peer.",
         "deterministic simulation (simulated peer as strict parser oracle); seeded input search"),
 "C03": ("exploration", "5.C03",
         "Every cut set of short reply streams and sampled/structural cut sets of long ones, with EINTR and RECV_SIZE knobs, delivered by the simulated socket; differential oracle against whole-reply delivery plus wire ownership checks.",
         "deterministic simulation; delivery-schedule (segmentation) search with differential oracle"),
 "C04": ("exploration", "5.C04",
         "Store->fetch histories through the real client against the reference node with independently constructed legal keys, serdes, prefixes, key collection types and delivery schedules; independent decoding of what the server holds.",
         "deterministic simulation against a reference memcached; seeded input/configuration search"),
 "C05": ("exploration", "5.C05",
         "Histories of 5-40 calls over a tiny key universe with clock advances and peer-side changes; an abstract map with expiry and cas versions stepped in lock-step, with return-value and server-state cross-checks after every call.",
         "deterministic simulation with virtual clock; lock-step refinement against a reference model"),
 "C06": ("fault_enumeration", "5.C06",
         "Fault sweep over all nine socket-module event kinds x error kinds for TCP (1-3 resolved addresses), UNIX and TLS connections; socket ledger (open-socket bound, reachability walk for leaks, timeouts in force, TLS wrapper use, fresh connection after failure, address fallback).",
         "deterministic simulation + fault injection; socket lifecycle ledger"),
 "C07": ("fault_enumeration", "5.C07",
         "Read calls with ignore_exc on three stacks under the C01 fault sweep, failing deserialisers and node-down kinds; differential oracle against the same call on healthy empty servers (miss) and without faults (hit).",
         "deterministic simulation + fault injection; differential miss/hit oracle"),
 "C08": ("exploration", "5.C08",
         "Real threads run one at a time under a seeded scheduler with bytecode-instruction, socket-event and lock-operation pre-emption points; complete single-pre-emption sweeps per workload plus random and PCT schedules; ownership/size/duplicate/deadlock invariants at every point, close-once and nothing-checked-out at the end.",
         "deterministic thread scheduling (baton passing, sys.monitoring instruction events); seeded schedule search"),
 "C09": ("fault_enumeration", "5.C09",
         "Pooled histories with per-call fault sweeps and idle gaps below/exactly at/above pool_idle_timeout on the virtual clock; pool ledger (nothing checked out, failed connection closed and never reused, healthy one reused, idle-expired one closed).",
         "deterministic simulation + fault injection; virtual clock; pool ledger"),
 "C10": ("fault_enumeration", "5.C10",
         "KeyboardInterrupt / SystemExit / BaseException-subclass raised from inside every socket event of sampled calls, followed by further calls; C01's ownership oracle plus pool-slot ledger.",
         "deterministic simulation; crash-point (interruption) enumeration over socket events"),
 "C12": ("exploration", "5.C12",
         "HashClient over 1-5 simulated servers: per-server command logs against an independent reference placement (rendezvous over from-the-C-source MurmurHash3) plus a single abstract map in lock-step; also on rotations reduced by failover.",
         "deterministic multi-node simulation; per-node command logs vs reference placement"),
 "C13": ("exploration", "5.C13",
         "Timed histories of operations, clock advances and server failures/recoveries (five failure kinds) with a healing suffix, on the virtual clock; history oracles for contact-rate bounds, premature eviction, bypassing, bounded recovery and escaping exceptions.",
         "deterministic multi-node simulation with virtual clock and node faults; history checking"),
 "C16": ("exploration", "5.C16",
         "One seeded operation list replayed on five client stacks in identical simulated worlds over a configuration grid; parsed command streams, results, exception classes and final stores compared with Client's.",
         "deterministic simulation; differential replay across client stacks"),
 "C17": ("fault_enumeration", "5.C17",
         "The complete decision table (attempts x outcome sequences x retry_for x do_not_retry_for) executed against a scripted inner client, plus invalid configurations and end-to-end cells with a real Client failing by injected socket faults; reference decision function, virtual-clock sleep log.",
         "deterministic simulation; exhaustive outcome-sequence enumeration with virtual clock"),
 "C18": ("exploration", "5.C18",
         "FallbackClient over 1-4 real Clients on simulated servers with enumerated/sampled hit-miss matrices and down fallbacks; per-server command logs decide visit order, stop point, returned value and write locality.",
         "deterministic multi-node simulation with server outages of fallback caches; per-node command logs"),
 "C19": ("exploration", "5.C19",
         "Simulated ElastiCache endpoint and cache nodes; construction and sequences of reconfigurations with segmented config replies and ERROR endpoints; per-node command logs vs reference placement over the advertised list, address kind per use_vpc, socket ledger.",
         "deterministic multi-node simulation; reconfiguration histories incl. two-caller interleavings (second caller run while the first is parked in a socket call); per-node command logs"),
}
NA = {
 "C11": "pure function of (key, node set): no schedule, clock, fault or peer to simulate (DESIGN 6)",
 "C14": "pure arithmetic on (string, seed): not a simulation target (DESIGN 6)",
 "C15": "pure serialize/deserialize functions, no I/O or state: not a simulation target (DESIGN 6)",
 "C20": "pure predicate on (key, prefix, allow_unicode_keys): not a simulation target (DESIGN 6)",
}
PENDING = "not claimed"
ALL = ["C%02d" % i for i in range(1, 21)]

m = {
 "version": 1,
 "setup_cmd": "./setup.sh",
 "hooks": {"guard": "PYMEMCACHE_VERIF", "enable": "no hooks exist: every seam is a constructor argument, class attribute or module global assigned by the harness (DESIGN 1)",
           "baseline_off_cmd": "cd /repo && /venv/bin/python -m pytest -ra -q -p no:cacheprovider --timeout=900 --continue-on-collection-errors",
           "source_commits": [], "add_only": True},
 "engines": [{"name": "sim", "path": "sim/", "serves_properties": sorted(CHECKS),
              "kind_free_text": "deterministic single-process simulator (virtual clock, simulated socket module, reference memcached nodes, seeded fault plans and delivery schedules, baton-passing thread scheduler), seeded search with ddmin minimisation and replay files"}],
 "checks": [],
 "not_applicable": [],
 "notes": "All checks: ./check <ID> --tier quick|thorough; exit 0 held / 1 VIOLATION / 2 harness error. Known findings in known_findings.json.",
}
for pid in ALL:
    if pid in CHECKS:
        level, ref, text, tech = CHECKS[pid]
        m["checks"].append({
            "property_id": pid, "quick_cmd": "./check %s --tier quick" % pid,
            "thorough_cmd": "./check %s --tier thorough" % pid,
            "evidence_file": "evidence/%s.json" % pid,
            "replay_cmd_template": "./check %s --replay {path}" % pid,
            "engine": "sim",
            "level_claimed": {"category": level, "text": text, "design_ref": ref},
            "level_note": TRUST, "technique": tech})
    else:
        m["not_applicable"].append({"property_id": pid, "reason": NA.get(pid, PENDING)})
json.dump(m, open(os.path.join(HERE, "MANIFEST.json"), "w"), indent=1)
print("MANIFEST.json written:", len(m["checks"]), "checks,", len(m["not_applicable"]), "not applicable")

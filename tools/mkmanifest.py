#!/venv/bin/python
"""Regenerates MANIFEST.json from the table below (kept in one place so it stays valid)."""
import json, os
HERE = os.path.dirname(os.path.dirname(os.path.abspath(__file__)))

TRUST = ("Trusted base: the simulator under /verif/sim (SimNet/SimSocket/SimNode/SimClock), CPython 3.12; "
         "the peer model is written from protocol.txt / memcached 1.6 behaviour, not validated against a real server "
         "(none in the sandbox). Sampling, not proof: assurance is proportional to the reach reported in the evidence file.")

CHECKS = {
 "C01": ("fault_enumeration", "5.C01",
         "Seeded deterministic simulation: fault sweep over every socket event and reply unit of sampled calls x fault kinds, plus random multi-fault histories, on Client/PooledClient/HashClient against a reference memcached; byte-ownership oracle on the simulated wire plus result-vs-server-state oracle on fault-free calls.",
         "deterministic simulation + fault injection; reply-ownership tags on the simulated wire"),
}
NA = {
 "C11": "pure function of (key, node set): no schedule, clock, fault or peer to simulate (DESIGN 6)",
 "C14": "pure arithmetic on (string, seed): not a simulation target (DESIGN 6)",
 "C15": "pure serialize/deserialize functions, no I/O or state: not a simulation target (DESIGN 6)",
 "C20": "pure predicate on (key, prefix, allow_unicode_keys): not a simulation target (DESIGN 6)",
}
PENDING = "check not built yet in this round (planned, see DESIGN 9); not claimed until it exists"
ALL = ["C%02d" % i for i in range(1, 21)]

m = {
 "version": 1,
 "setup_cmd": "./setup.sh",
 "hooks": {"guard": "PYMEMCACHE_VERIF", "enable": "no hooks exist: every seam is a constructor argument, class attribute or module global assigned by the harness (DESIGN 1)",
           "baseline_off_cmd": "cd /repo && /venv/bin/python -m pytest -ra -q -p no:cacheprovider --timeout=900 --continue-on-collection-errors",
           "source_commits": [], "add_only": True},
 "engines": [{"name": "sim", "path": "sim/", "serves_properties": sorted(CHECKS),
              "kind_free_text": "deterministic single-process simulator (virtual clock, simulated socket module, reference memcached nodes, seeded fault plans and delivery schedules, baton-passing thread scheduler), seeded search with ddmin minimisation and replay files"}],
 "checks": [],
 "not_applicable": [],
 "notes": "All checks: ./check <ID> --tier quick|thorough; exit 0 held / 1 VIOLATION / 2 harness error. Known findings in known_findings.json.",
}
for pid in ALL:
    if pid in CHECKS:
        level, ref, text, tech = CHECKS[pid]
        m["checks"].append({
            "property_id": pid, "quick_cmd": "./check %s --tier quick" % pid,
            "thorough_cmd": "./check %s --tier thorough" % pid,
            "evidence_file": "evidence/%s.json" % pid,
            "replay_cmd_template": "./check %s --replay {path}" % pid,
            "engine": "sim",
            "level_claimed": {"category": level, "text": text, "design_ref": ref},
            "level_note": TRUST, "technique": tech})
    else:
        m["not_applicable"].append({"property_id": pid, "reason": NA.get(pid, PENDING)})
json.dump(m, open(os.path.join(HERE, "MANIFEST.json"), "w"), indent=1)
print("MANIFEST.json written:", len(m["checks"]), "checks,", len(m["not_applicable"]), "not applicable")

#!/venv/bin/python
"""tools/mkmut.py <name> <relpath> <old> <new> [<relpath2> <old2> <new2> ...]: writes mutants/<name>.diff (unified diff vs /repo)."""
import sys, difflib, os
name = sys.argv[1]
args = sys.argv[2:]
out = []
for i in range(0, len(args), 3):
    rel, old, new = args[i:i+3]
    old = old.encode().decode("unicode_escape"); new = new.encode().decode("unicode_escape")
    src = open(os.path.join("/repo", rel)).read()
    assert src.count(old) == 1, "old text occurs %d times in %s" % (src.count(old), rel)
    dst = src.replace(old, new)
    out += list(difflib.unified_diff(src.splitlines(True), dst.splitlines(True), "a/" + rel, "b/" + rel, n=3))
open(os.path.join(os.path.dirname(os.path.dirname(os.path.abspath(__file__))), "mutants", name + ".diff"), "w").write("".join(out))
print("wrote mutants/%s.diff (%d lines)" % (name, len(out)))

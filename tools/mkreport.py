#!/venv/bin/python
"""Writes seeded/INDEX.md from seeded/*/meta.json (+ seeded/MATRIX.tsv if present)."""
import glob, json, os
HERE = os.path.dirname(os.path.dirname(os.path.abspath(__file__)))
rows = []
for d in sorted(glob.glob(os.path.join(HERE, "seeded", "C*-*"))):
    m = os.path.join(d, "meta.json")
    if not os.path.exists(m):
        continue
    j = json.load(open(m))
    name = os.path.basename(d)
    checks = j.get("checks") or {}
    det = [p for p, c in checks.items() if c.get("detected")]
    orc = sorted({o for c in checks.values() for o in c.get("oracles", [])})
    extra = j.get("also_detected_by") or []
    rows.append((name, j.get("property"), (j.get("summary") or "").replace("|", "/").replace("\n", " ")[:230],
                 (j.get("needs") or "").replace("|", "/").replace("\n", " ")[:230], det + [x for x in extra if x not in det], orc,
                 j.get("first_round_result", "")))
out = ["# Independently seeded changes (sub-agents given only a property text and a scratch worktree)", "",
       "Every change below was confirmed by me in a fresh scratch worktree: applies to /repo HEAD, the pinned 488-test",
       "suite still passes with it, its demo fails with it and passes without it. `patch.diff`, `demo.py`, `meta.json`",
       "(what it needs to manifest, what was run, which checks catch it) are in the directory of the same name.", "",
       "| id | property | change | needs | caught by (quick tier) | oracles |", "|---|---|---|---|---|---|"]
for name, prop, summ, needs, det, orc, first in rows:
    out.append("| %s | %s | %s | %s | %s | %s |" % (name, prop, summ, needs, ", ".join(det) or "**not caught**", ", ".join(orc)[:160]))
out.append("")
n = len(rows)
c = sum(1 for r in rows if r[4])
out.append("%d changes, %d caught by at least one quick check." % (n, c))
open(os.path.join(HERE, "seeded", "INDEX.md"), "w").write("\n".join(out) + "\n")
print("seeded/INDEX.md: %d changes, %d caught" % (n, c))

#!/venv/bin/python
"""tools/recheck_seeded.py [PREFIX..]: re-runs every stored seeded change (seeded/<id>/patch.diff, scratch copies via
tools/with_mutant, never /repo) against the quick tier of the check(s) recorded in its meta.json as catching it and
prints one line per change: `<id> <check> caught` or `<id> [...] NOT-CAUGHT`. Changes marked `status: superseded` in
their meta.json are skipped. J=<n> parallel jobs (default 4)."""
import glob, json, os, subprocess, sys
from concurrent.futures import ThreadPoolExecutor
HERE = os.path.dirname(os.path.dirname(os.path.abspath(__file__)))
sel = sys.argv[1:]
jobs = []
for d in sorted(glob.glob(os.path.join(HERE, "seeded", "C*-*"))):
    name = os.path.basename(d)
    if sel and not any(name.startswith(s) for s in sel):
        continue
    j = json.load(open(os.path.join(d, "meta.json")))
    if str(j.get("status", "")).startswith("superseded"):
        print(name, "superseded - skipped", flush=True)
        continue
    det = [p for p, c in (j.get("checks") or {}).items() if c.get("detected")] + list(j.get("also_detected_by") or [])
    jobs.append((name, os.path.join(d, "patch.diff"), det or [j["property"]]))


def run(job):
    name, diff, props = job
    for p in props:
        r = subprocess.run([os.path.join(HERE, "tools", "with_mutant"), diff, p, "--tier", "quick"],
                           capture_output=True, text=True, timeout=3000)
        if ("VIOLATION property=%s" % p) in r.stdout:
            return name, p, True
    return name, props, False


with ThreadPoolExecutor(int(os.environ.get("J", "4"))) as ex:
    for name, p, ok in ex.map(run, jobs):
        print(name, p, "caught" if ok else "NOT-CAUGHT", flush=True)

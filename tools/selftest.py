import glob, json, os, subprocess, sys, tempfile
HERE = os.path.dirname(os.path.dirname(os.path.abspath(__file__)))
PROPS = ["C01", "C02", "C03", "C04", "C05", "C06", "C07", "C08", "C09", "C10", "C12", "C13", "C16", "C17", "C18", "C19"]
UNITS = {"C03": 6, "C08": 4, "C17": 3}
# properties whose wire traffic can legitimately depend on set iteration order (set-typed key collections,
# HashClient's failed-key set difference): digests are not compared under the second hash seed, verdicts are
HASHSEED_ORDER_DEPENDENT = {"C04", "C13"}


def digests(pid, units, workers, hashseed, tmp):
    f = os.path.join(tmp, "%s-%s-%s.json" % (pid, workers, hashseed))
    env = dict(os.environ, VERIF_HASHSEED=str(hashseed))
    cp = subprocess.run([os.path.join(HERE, "check"), pid, "--digests", f, "--units", str(units), "--workers", str(workers)],
                        capture_output=True, text=True, env=env, timeout=1800)
    if cp.returncode != 0:
        print(cp.stdout[-2000:], cp.stderr[-2000:])
        raise SystemExit("digest run failed for %s" % pid)
    return json.load(open(f))


def determinism(argv):
    scale = int(argv[0]) if argv else 24
    bad = 0
    with tempfile.TemporaryDirectory() as tmp:
        for pid in PROPS:
            n = UNITS.get(pid, scale)
            a = digests(pid, n, 1, 0, tmp)
            a2 = digests(pid, n, 1, 0, tmp)
            b = digests(pid, n, 16, 0, tmp)
            c = digests(pid, n, 4, 12345, tmp)
            same_proc = a == a2 == b
            verdicts = all(a[k][1:] == c[k][1:] for k in a)
            dig_c = all(a[k][0] == c[k][0] for k in a)
            ok = same_proc and verdicts and (dig_c or pid in HASHSEED_ORDER_DEPENDENT)
            nsc = sum(v[1] for v in a.values())
            print("%s units=%d scenarios=%d  1proc==1proc==16proc:%s  hashseed2 verdicts:%s digests:%s  %s" % (
                pid, n, nsc, same_proc, verdicts, dig_c, "ok" if ok else "FAIL"))
            bad += 0 if ok else 1
    print("determinism self-test:", "ok" if not bad else "%d FAILED" % bad)
    return 1 if bad else 0


EQUIV = set()
try:
    for line in open(os.path.join(HERE, "mutants", "EQUIVALENT.md")):
        if line[:1] == "c" and "_" in line.split(" ")[0]:
            EQUIV.add(line.split(" ")[0])
except OSError:
    pass


def mutants(argv):
    want = [a.upper() for a in argv]
    bad = 0
    rows = []
    for f in sorted(glob.glob(os.path.join(HERE, "mutants", "*.diff"))):
        name = os.path.basename(f)[:-5]
        pid = name.split("_")[0].upper()
        if want and pid not in want:
            continue
        cp = subprocess.run([os.path.join(HERE, "tools", "with_mutant"), f, pid, "--tier", "quick"],
                            capture_output=True, text=True, timeout=3600)
        if "PATCH-FAILED" in cp.stdout:
            print("%-34s PATCH-FAILED (mutant diff no longer applies to /repo)" % name)
            rows.append((name, False, True, []))
            continue
        hit = "VIOLATION property=%s" % pid in cp.stdout
        harness = "HARNESS-ERROR" in cp.stdout
        oracles = sorted({l.split("oracle=")[1].split(" ")[0] for l in cp.stdout.splitlines() if l.startswith("violation:")})
        rows.append((name, hit, harness, oracles))
        equiv = name in EQUIV
        print("%-34s %s %s" % (name, "HARNESS-ERROR" if harness else ("caught" if hit else (
            "equivalent (documented)" if equiv else "MISSED")), ",".join(oracles)[:120]))
        sys.stdout.flush()
    print("mutants: %d caught, %d missed, %d harness errors of %d" % (
        sum(1 for r in rows if r[1] and not r[2]), sum(1 for r in rows if not r[1] and not r[2]),
        sum(1 for r in rows if r[2]), len(rows)))
    return 0


if __name__ == "__main__":
    cmd = sys.argv[1] if len(sys.argv) > 1 else "determinism"
    sys.exit({"determinism": determinism, "mutants": mutants}[cmd](sys.argv[2:]))
